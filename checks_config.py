"""Per-property configuration of the driver: test function, budgets, evidence texts."""

CHECKS = {
    "C18": {
        "test": "TestVerif_C18",
        "level": "exploration",
        "quick": {"checks": 20000, "shards": 1, "timeout": 600},
        "thorough": {"checks": 200000, "shards": 16, "timeout": 3000},
        "rule": "rapid draws (dim 1..512 weighted to small, three component flavours incl. magnitudes 1e-6..1e6, "
                "partner derived as independent/equal/opposite/orthogonal/nearly parallel/scaled); a case is non-trivial "
                "when dim >= 2 and the first vector is not constant; distinct = distinct FNV-64 of the case JSON",
        "oracle": "algebraic laws (non-negativity, exact symmetry, identity, triangle inequality, L2^2 = L2*L2, cosine range / "
                  "scale invariance) and float64 reference values with tolerances proportional to dim*2^-24; batch == element-wise "
                  "bit for bit; argument non-mutation by bit comparison",
        "assumptions": ["amd64 float32 arithmetic without fused multiply-add reassociation", "Go toolchain, rapid v1.3.0"],
    },
}
