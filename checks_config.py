"""Per-property configuration of the driver: test function, budgets, evidence texts."""

HOOK_COMMITS = []

CHECKS = {
    "C01": {
        "test": "TestVerif_C01",
        "level": "exploration",
        "technique": "property-based testing (rapid): generated Add/Remove/Flush/Search histories against a brute-force float64 k-NN reference model",
        "level_text": "Generated-input search against a reference model: every search of every generated history (dims 1..64, 3 metrics, k in Z, thresholds incl. exact stored distances, id restrictions incl. absent ids, failing adds) is compared with exact float64 k-NN over the model's live set using the tie-tolerant two-directional comparison of DESIGN 3.3. Sampling, not exhaustive.",
        "level_note": "Trusts float64 arithmetic as reference and the stated float32 tolerance model (zero tolerance on small-integer data under the L2 family); ids are distinct and non-zero as the property states.",
        "quick": {"checks": 3000, "shards": 1, "timeout": 600},
        "thorough": {"checks": 25000, "shards": 16, "timeout": 3000},
        "rule": "rapid-generated histories of 1..60 ops (add / failing add / remove live|removed|unknown / flush / search / failing search) over 5 vector flavours; non-trivial = contains a search that returned >= 1 hit while truncation by k, an unflushed removal, the id restriction or the threshold excluded at least one resident vector; distinct by FNV-64 of the case JSON",
        "oracle": "brute-force k-NN in float64 over the model's live set (order, per-id score, uniqueness, count, nothing-better-left-out, rank-wise score multiset); Remove error iff id not live; failing Add/search must error",
        "assumptions": ["distinct non-zero ids (property's domain)", "float32 accumulation error model of DESIGN 3.2"],
    },
    "C19": {
        "test": "TestVerif_C19",
        "level": "exploration",
        "technique": "property-based testing (rapid): reference fold over id->scores plus prefix / permutation / non-mutation / no-panic predicates on generated result lists and score maps",
        "level_text": "Generated-input search: result lists (0..300 entries, duplicate ids, ties, +-Inf, NaN, negatives), every aggregation kind for both modalities, k and cutoff in Z, pairs of score maps (disjoint/nested/equal/one empty), weights and RRF K are generated; outputs are compared with a reference fold and algebraic predicates. Sampling, not exhaustive.",
        "level_note": "Order clauses are asserted only on NaN-free outputs (a comparison sort has no defined order with NaN); with NaN only 'no panic, ids preserved' is asserted. RRF ranks are 0-based as pinned by the repository's own fusion_test; tie groups may receive any ranks of their interval.",
        "quick": {"checks": 20000, "shards": 1, "timeout": 600},
        "thorough": {"checks": 150000, "shards": 16, "timeout": 3000},
        "rule": "rapid-generated (list, permutation, k, cutoff, vector map, text map, weights, K); non-trivial = list with >= 2 ids of which >= 1 occurs more than once, or maps with a non-empty symmetric difference; distinct by FNV-64 of the case JSON",
        "oracle": "reference fold id->[scores] (float64 sum / max / mean over occurrences, float32-accumulation tolerance), best-first order, permutation invariance, LimitResults = first min(k',len), Autocut index in [0,len] and AutocutResults a prefix (all when -1), fusion formulas over union / intersection with tie-interval RRF ranks and fixed total rank mass, inputs bit-identical afterwards, mergeResults = max per id",
        "assumptions": ["0-based RRF ranks (pinned by fusion_test.go)"],
    },
    "C20": {
        "test": "TestVerif_C20",
        "level": "exploration",
        "technique": "property-based testing (rapid): validity predicates on k-means output, determinism by re-execution, black-box convergence test, quantiser round-trip bounds",
        "level_text": "Generated-input search: training sets of 1..500 vectors (duplicates, all-equal, collinear, grid; k in Z incl. k>n, maxIter in Z) are clustered and the output checked by validity predicates (count, finiteness, bounding box, mapping range, nearest-when-converged, non-mutation, bit-identical re-run); IVF/PQ/IVFPQ twins trained and filled identically must answer identically; quantisers are round-tripped over generated values incl. retraining of one int8 instance. Sampling, not exhaustive.",
        "level_note": "'Converged' is detected black-box (outputs for maxIter T and T+1 identical). Bounding-box clause on the Euclidean family only, as the property states. A Train() that returns an error is 'size not accepted' (both twins must agree).",
        "quick": {"checks": 3000, "shards": 1, "timeout": 900},
        "thorough": {"checks": 15000, "shards": 16, "timeout": 3000},
        "rule": "rapid-generated (metric, training set shape/size, k, maxIter, index kind+params, queries, half-precision values, int8 train/round-trip rounds); non-trivial = n > k >= 2 with >= 2 distinct points; distinct by FNV-64 of the case JSON",
        "oracle": "validity predicates on KMeans output + determinism by re-execution + T vs T+1 convergence => nearest-centroid; twin-index query agreement; float16 within |x|/2048, int8 within absMax/254 (+8 ulp), float32 exact; untrained int8 refuses",
        "assumptions": ["float16 normal range inputs for the half-precision clause", "values within +-absMax for int8"],
    },
    "C13": {
        "test": "TestVerif_C13",
        "level": "exploration",
        "technique": "property-based testing (rapid): generated train/add/remove/flush/search histories; full probe vs brute-force k-NN model, partial probe vs exact top-k of the p nearest clusters with tie enumeration",
        "level_text": "Generated-input search against a reference model: at full probe every search is compared with exact float64 k-NN; at partial probe with the exact top-k of the live vectors stored in the p clusters whose centroids are nearest (all legal resolutions of a centroid tie at the boundary enumerated); plus rank-wise monotonicity in p, the assignment invariant after every Add, and errors before training. Sampling, not exhaustive.",
        "level_note": "Centroids and list membership are read through one accessor file; centroid ranking uses the index's own Distance (checked by C18) so that the tie structure is the implementation's; vector distances are independent float64.",
        "quick": {"checks": 2000, "shards": 1, "timeout": 900},
        "thorough": {"checks": 12000, "shards": 16, "timeout": 3000},
        "rule": "rapid-generated (dim, metric, nlist, training set incl. duplicates/collinear, history, searches with nprobes in [-2,nlist+2]); non-trivial = partial-probe search with >= 2 non-empty clusters where a live vector outside the probed clusters would have entered the exact top-k; distinct by FNV-64 of the case JSON",
        "oracle": "C01 model at full probe; exact top-k over probed clusters (<= 64 tie resolutions, else validity only) at partial probe; monotone in p; assignment = exactly one list whose centroid is a nearest one; Add/search before Train and Train with < nlist vectors must fail",
        "assumptions": ["distinct non-zero ids", "float32 tolerance model of DESIGN 3.2"],
    },
    "C14": {
        "test": "TestVerif_C14",
        "level": "exploration",
        "technique": "property-based testing (rapid): independent float64 recomputation of codes, reconstructions and asymmetric distances from the trained codebooks over generated configurations and histories",
        "level_text": "Generated-input search against an independent recomputation: for generated (kind, metric, M, dsub, nbits asked over 1..17, nlist, training set from the minimum accepted size, history) every stored code must be an arg-min codeword, every reported score the Euclidean distance to the reconstruction (residual to the probed list's centroid for IVFPQ), every result the exact top-k by that score, every score within the quantisation error of the true distance; Train must fail cleanly, never panic. Sampling; nbits above 10 (quick) / 12 (thorough) is only exercised at the constructor.",
        "level_note": "Codebooks, codes, centroids and stored vectors are read through the accessor file; nothing of the implementation's encode / table code is reused.",
        "quick": {"checks": 1200, "shards": 1, "timeout": 900},
        "thorough": {"checks": 5000, "shards": 16, "timeout": 3400},
        "rule": "rapid-generated configurations and histories (adds from the training set, fresh vectors, vectors built to coincide with their reconstruction, removals, flushes, searches with k / threshold incl. exact reported scores / id restriction / nprobes); non-trivial = search over >= 2 distinct codes that was truncated by k; distinct by FNV-64 of the case JSON",
        "oracle": "float64 recomputation from codebooks: arg-min codes, score = ||q' - recon|| (IVFPQ: residuals to the vector's list centroid), exact top-k (C13 tie handling for partial probes), |score - true distance| <= quantisation error, nearest-cluster assignment, clean Train errors",
        "assumptions": ["distinct non-zero ids", "float32 tolerance model of DESIGN 3.2"],
    },
    "C18": {
        "test": "TestVerif_C18",
        "level": "exploration",
        "technique": "property-based testing (rapid): algebraic laws + float64 reference oracle over generated vector pairs/triples",
        "level_text": "Generated-input search: 20 000 (quick) / 3.2 million (thorough) generated vector triples are checked against the metric laws and a float64 reference with float32-accumulation tolerances; no exhaustiveness, the floats are sampled.",
        "level_note": "Trusts the Go toolchain, rapid and float64 arithmetic as reference; tolerances assume float32 accumulation in index order.",
        "quick": {"checks": 20000, "shards": 1, "timeout": 600},
        "thorough": {"checks": 200000, "shards": 16, "timeout": 3000},
        "rule": "rapid draws (dim 1..512 weighted to small, three component flavours incl. magnitudes 1e-6..1e6, "
                "partner derived as independent/equal/opposite/orthogonal/nearly parallel/scaled); a case is non-trivial "
                "when dim >= 2 and the first vector is not constant; distinct = distinct FNV-64 of the case JSON",
        "oracle": "algebraic laws (non-negativity, exact symmetry, identity, triangle inequality, L2^2 = L2*L2, cosine range / "
                  "scale invariance) and float64 reference values with tolerances proportional to dim*2^-24; batch == element-wise "
                  "bit for bit; argument non-mutation by bit comparison",
        "assumptions": ["amd64 float32 arithmetic without fused multiply-add reassociation", "Go toolchain, rapid v1.3.0"],
    },
}
