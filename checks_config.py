"""Per-property configuration of the driver: test function, budgets, evidence texts."""

HOOK_COMMITS = []

CHECKS = {
    "C18": {
        "test": "TestVerif_C18",
        "level": "exploration",
        "technique": "property-based testing (rapid): algebraic laws + float64 reference oracle over generated vector pairs/triples",
        "level_text": "Generated-input search: 20 000 (quick) / 3.2 million (thorough) generated vector triples are checked against the metric laws and a float64 reference with float32-accumulation tolerances; no exhaustiveness, the floats are sampled.",
        "level_note": "Trusts the Go toolchain, rapid and float64 arithmetic as reference; tolerances assume float32 accumulation in index order.",
        "quick": {"checks": 20000, "shards": 1, "timeout": 600},
        "thorough": {"checks": 200000, "shards": 16, "timeout": 3000},
        "rule": "rapid draws (dim 1..512 weighted to small, three component flavours incl. magnitudes 1e-6..1e6, "
                "partner derived as independent/equal/opposite/orthogonal/nearly parallel/scaled); a case is non-trivial "
                "when dim >= 2 and the first vector is not constant; distinct = distinct FNV-64 of the case JSON",
        "oracle": "algebraic laws (non-negativity, exact symmetry, identity, triangle inequality, L2^2 = L2*L2, cosine range / "
                  "scale invariance) and float64 reference values with tolerances proportional to dim*2^-24; batch == element-wise "
                  "bit for bit; argument non-mutation by bit comparison",
        "assumptions": ["amd64 float32 arithmetic without fused multiply-add reassociation", "Go toolchain, rapid v1.3.0"],
    },
}
