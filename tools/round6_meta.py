#!/usr/bin/env python3
"""Adds the hand-written fields (change, needs_to_manifest, round, history) to the round-6 seeded metas
and appends their rows to seeded/INDEX.md. Run once after tools/seeded_verify.sh has filed the directories."""
import json, os

ROOT = os.path.join(os.path.dirname(os.path.abspath(__file__)), "..", "seeded")
R = {
 "C05-K": ("metadata OpIn fast path for a one-element In(...) returns the stored posting bitmap without cloning; the executors combine filters in place into the first bitmap",
           "a one-value In on a categorical field as the FIRST of two or more filters / groups, then a later query on that value", ""),
 "C05-L": ("BM25 multi-query Execute calls Aggregate only when some document appears in two per-query hit lists; otherwise the concatenation is cut unsorted",
           "two or more text queries with disjoint hits, more hits than k, a later query's hit outscoring an earlier one", ""),
 "C07-K": ("HNSW ReadFrom re-creates the 'missing' reverse link of every persisted link (pruned on purpose)",
           "a graph in which pruning dropped reverse links", ""),
 "C07-L": ("hybrid WriteTo stops after the header when docInfo is empty and ReadFrom returns early at count 0: a trained, document-less IVF / PQ / IVFPQ sub-index loses its training",
           "hybrid x trainable vector kind x empty-after-Train or all-removed state", ""),
 "C08-K": ("flat index gains an id bitmap used as a fast exit for restricted searches; ReadFrom does not rebuild it",
           "a filtered vector query after the document's memtable was flushed (or its segment reloaded)", ""),
 "C08-L": ("segment lazy load moved to sync.Once, which EvictCache does not reset",
           "flush, search (loads the segment), evict, search again", ""),
 "C09-K": ("listSegments rewritten with filepath.Glob over the whole path: a store directory whose name contains glob metacharacters matches nothing",
           "a BaseDir such as run[2024] and one reopen",
           "missed at first (every store lived in a MkdirTemp directory); caught after one C09 case in six puts the store into a sub-directory with an unusual name (pattern metacharacters, spaces, non-ASCII, nested, names that look like segment files)"),
 "C09-L": ("Close retries a failed final flush once; the inner := shadows the error Close checks: nil although both attempts failed",
           "a write fault that lasts through Close and documents still in memory",
           "missed at first (the injected I/O fault was only present at Flush); caught after a 'blocked_close' operation lets the session's Close meet the fault: a nil from Close acknowledges what was pending"),
 "C10-K": ("compaction deletes on-disk segments that are not registered - including those of a flush in flight (same idea as C08-J, found independently)",
           "a compaction that finishes while a flush is between creating its files and registering the segment", ""),
 "C10-L": ("pure vector queries load only vector_N.bin.gz through a new lazy loader, bypassing the whole-segment commit rule",
           "a crash between flush:closed:vector and the hybrid file's close, then a vector-only query", ""),
 "C11-K": ("PQ WriteTo serialises from copied slice headers after releasing the lock; flushLocked now compacts in place",
           "a WriteTo in flight while another goroutine removes and flushes", ""),
 "C11-L": ("store Remove that misses the active memtable now removes from a frozen memtable - also while that memtable's flush has already written it",
           "Remove racing with the flush of the memtable that holds the document", ""),
 "C13-K": ("IVF flushLocked puts the survivors of all lists into one slab; each list's capacity runs on over the next list",
           "Remove, a hard delete (Flush / WriteTo / re-add), then an Add into a list that is followed by a non-empty one", ""),
 "C13-L": ("IVF search sizes its buffer as (vectors in the probed lists) - (index-wide tombstones) and returns empty when that is <= 0",
           "unflushed tombstones, nprobes < nlist, at least as many tombstones index-wide as vectors in the probed lists", ""),
 "C14-K": ("IVFPQ ranks the coarse centroids with the caller's raw query (before Preprocess): under cosine a long query ties many centroids at the clamp",
           "cosine, a query with norm well above 1, nprobes < nlist", ""),
 "C14-L": ("PQ search writes the clamped k back into the search object",
           "a kept search object executed again after the candidate set has grown, or several queries plus a threshold in one Execute",
           "missed at first (a kept search object was only re-executed while the index was unchanged); caught after C13 / C14 compare a search object kept across mutations with a new object built with the same parameters (same number of hits, same score at every rank)"),
 "C16-K": ("flat ReadFrom drops the header dimension check and compares each record with the receiver's dimension: a stream without vectors is accepted by any receiver",
           "an empty / all-removed flat stream and a receiver of another dimension", ""),
 "C16-L": ("getIndex stops holding the segment lock during I/O: a caller that finds a load in flight waits and returns (cachedIndex, nil) - (nil, nil) when that load failed",
           "two or more overlapping searches over a damaged, uncached segment",
           "a schedule-dependent defect: C11 caught it in one of two runs (process death through the crash journal); missed by C16 at first (its images were searched by one goroutine), caught after the first searches over a reopened image with damaged segments arrive from 4 / 8 goroutines at once (the process death is reported through the crash journal; the driver now also reports a reproducible death during a regression replay as a violation instead of 'inconclusive')"),
 "C17-K": ("Close holds the store mutex until it is done (defer Unlock): a compaction in flight blocks on its final lock and Close waits for the worker for ever",
           "Close while a compaction has passed its threshold check and not reached its swap",
           "not caught by C17 (it does not trigger compactions on open handles: KF-1); caught by C11's store_close target (directed Close while a compaction is parked; the hang is reported by the case watchdog), like C17-J"),
 "C17-L": ("store Train trains the shared template before it is admitted: on a closed handle it is refused AFTER it has retrained the template",
           "Train on a closed handle of a store with a trainable template",
           "missed at first (C17's stores use a flat template, which has nothing to train, and only the directory was compared); caught after the use-after-close step for Train also opens, uses and closes a store with an IVF template and requires the template to serialise to the same bytes after the refused calls"),
}

rows = []
for key, (change, needs, hist) in R.items():
    p = os.path.join(ROOT, key, "meta.json")
    m = json.load(open(p))
    m["change"], m["needs_to_manifest"], m["round"] = change, needs, 6
    if hist:
        m["history"] = hist
    json.dump(m, open(p, "w"), indent=1)
    res = ", ".join("%s=%d" % (c, r["rc"]) for c, r in m["quick_check_results"].items())
    rows.append("| %s | %s | %s | %s | %s |" % (key, change, needs, res, hist))

idx = os.path.join(ROOT, "INDEX.md")
s = open(idx).read().rstrip("\n")
have = {l.split("|")[1].strip() for l in s.splitlines() if l.startswith("| C")}
s += "\n" + "\n".join(r for r in rows if r.split("|")[1].strip() not in have) + "\n"
open(idx, "w").write(s)
print("rows appended:", sum(1 for r in rows if r.split("|")[1].strip() not in have))
