#!/bin/bash
# usage: tools/seeded_recheck.sh <ID-V>   Applies a filed seeded change to a scratch copy of /repo's working tree and runs the
# quick tier of the check(s) recorded as catching it. Prints "RECHECK <ID-V>: <check> rc=<n>". Development tool.
k=$1
checks=$(python3 -c "
import json;m=json.load(open('/verif/seeded/$k/meta.json'));print(' '.join(c for c,r in m['quick_check_results'].items() if r['rc']==1))")
wt=$(mktemp -d /tmp/verif-rc-XXXXXX); trap 'rm -rf "$wt"' EXIT
rsync -a --exclude .git /repo/ $wt/
(cd $wt && patch -p1 -s < /verif/seeded/$k/patch.diff >/dev/null 2>&1) || { echo "RECHECK $k: PATCH-FAILED"; exit 3; }
for c in $checks; do
  out=$(/verif/check $c --repo $wt --no-evidence 2>&1); rc=$?
  echo "RECHECK $k: $c rc=$rc $(echo "$out" | grep -A1 '^VIOLATION' | tail -1 | cut -c1-140)"
done
