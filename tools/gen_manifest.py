#!/usr/bin/env python3
"""Regenerates /verif/MANIFEST.json from checks_config.py (run after adding a check)."""
import json, os, sys
VERIF = os.path.dirname(os.path.dirname(os.path.abspath(__file__)))
sys.path.insert(0, VERIF)
from checks_config import CHECKS, HOOK_COMMITS
props = [json.loads(l) for l in open(os.path.join(VERIF, "properties.jsonl"))]
checks, na = [], []
for p in props:
    pid = p["id"]
    c = CHECKS.get(pid)
    if not c or c.get("disabled"):
        na.append({"property_id": pid, "reason": (c or {}).get("disabled", "check not built yet (work in progress; the design in DESIGN.md section 4 applies the technique to it)")})
        continue
    e = {
        "property_id": pid,
        "quick_cmd": "./check %s --tier quick" % pid,
        "thorough_cmd": "./check %s --tier thorough" % pid,
        "evidence_file": "/verif/evidence/%s.json" % pid,
        "replay_cmd_template": "./check %s --replay {path}" % pid,
        "engine": "rapid-harness",
        "level_claimed": {"category": c["level"], "text": c["level_text"], "design_ref": "DESIGN.md section 4, " + pid},
        "level_note": c["level_note"],
        "technique": c["technique"],
    }
    checks.append(e)
m = {
    "version": 1,
    "setup_cmd": "./check setup",
    "hooks": {
        "guard": "verif",
        "enable": "go test -tags verif -overlay <generated> (the driver /verif/check compiles /verif/harness/*_test.go into /repo's package with the tag on)",
        "baseline_off_cmd": "cd /repo && go test -mod=mod -json -vet=off -count=1 -timeout 25m ./...",
        "source_commits": HOOK_COMMITS,
        "add_only": True,
    },
    "engines": [{
        "name": "rapid-harness",
        "path": "/verif/harness",
        "serves_properties": [c["property_id"] for c in checks],
        "kind_free_text": "property-based testing: pgregory.net/rapid v1.3.0 generators (stateful histories as data), explicit oracles (reference models, round trips, differential and metamorphic relations, validity predicates), shrinking to a JSON case that is the replay file; fault enumeration on top of generated states for C10/C16",
    }],
    "checks": checks,
    "not_applicable": na,
    "notes": "Driver: /verif/check <ID> --tier quick|thorough [--replay F]. Exit 2 = inconclusive/infrastructure (never a violation). Known findings: /verif/known_findings.json.",
}
json.dump(m, open(os.path.join(VERIF, "MANIFEST.json"), "w"), indent=1)
print("claimed:", [c["property_id"] for c in checks], "not claimed:", [n["property_id"] for n in na])
