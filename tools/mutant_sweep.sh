#!/bin/bash
# Runs every sensitivity patch under mutants/ against the quick tier of its check (name prefix = check id)
# and writes mutants/RESULTS.txt. Development tool, not a registered command.
cd /verif
out=mutants/RESULTS.txt
tmp=$(mktemp)
ls mutants/*.patch | xargs -P 6 -I{} bash -c 'id=$(basename {} | cut -d- -f1); tools/mutant.sh {} $id 2>&1 | grep "^MUTANT" | head -1' > $tmp
sort $tmp > $out
echo "swept $(wc -l < $out) mutants: $(grep -c CAUGHT $out) caught, $(grep -c MISSED $out) missed, $(grep -c -E "INCONCLUSIVE|PATCH-FAILED" $out) inconclusive/patch-failed (at repo $(git -C /repo log --format=%h -1))" >> $out
rm -f $tmp
tail -1 $out
