#!/bin/bash
# Reports every seeded change / sensitivity patch that no longer applies to /repo's HEAD (to be rebased by hand:
# later "fix:" commits move the code under them). Development tool, not a registered command.
n=0; bad=0
for p in /verif/seeded/C*/patch.diff /verif/mutants/*.patch; do
  n=$((n+1))
  if ! git -C /repo apply --check "$p" 2>/dev/null && ! (cd /repo && patch -p1 --dry-run -s < "$p" >/dev/null 2>&1); then
    echo "DOES NOT APPLY: $p"; bad=$((bad+1))
  fi
done
echo "$n patches checked against $(git -C /repo log --format=%h -1), $bad do not apply"
