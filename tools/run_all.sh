#!/bin/bash
# usage: tools/run_all.sh <quick|thorough> <seed> [ids...]   -- runs the checks one after another, prints one line each
tier=$1; seed=$2; shift 2
ids=${*:-C01 C02 C03 C04 C05 C06 C07 C08 C09 C10 C11 C12 C13 C14 C15 C16 C17 C18 C19 C20}
cd "$(dirname "$0")/.."
for id in $ids; do
  t0=$(date +%s)
  out=$(VERIF_SEED=$seed ./check $id --tier $tier ${NOEVID:+--no-evidence} 2>&1); rc=$?
  echo "$(date +%H:%M:%S) $id tier=$tier seed=$seed rc=$rc $(( $(date +%s)-t0 ))s :: $(echo "$out" | tail -1)"
  if [ $rc != 0 ]; then echo "$out" | grep -v KNOWN-FINDING | head -12; fi
done
