#!/bin/bash
# usage: tools/mutant.sh <patch-file> <check-id> [extra check args]
# Applies one sensitivity patch to a throw-away copy of /repo (outside /repo and /verif),
# runs the quick tier of the check against the copy and reports whether it was caught (exit 1).
set -u
patch=$(readlink -f "$1"); id=$2; shift 2
dir=$(mktemp -d /tmp/verif-mut-XXXXXX)
trap 'rm -rf "$dir"' EXIT
rsync -a --exclude .git /repo/ "$dir/"
if ! (cd "$dir" && patch -p1 -s < "$patch"); then echo "MUTANT $(basename $patch) $id: PATCH-FAILED"; exit 3; fi
out=$(/verif/check "$id" --repo "$dir" --no-evidence "$@" 2>&1); rc=$?
msg=$(echo "$out" | grep -A1 '^VIOLATION' | tail -1 | cut -c1-160)
case $rc in
 1) echo "MUTANT $(basename $patch) $id: CAUGHT -- $msg";;
 0) echo "MUTANT $(basename $patch) $id: MISSED";;
 *) echo "MUTANT $(basename $patch) $id: INCONCLUSIVE rc=$rc"; echo "$out" | tail -20;;
esac
exit $rc
