#!/usr/bin/env python3
"""mkmut.py NAME [--repo DIR]  < spec    -- build a sensitivity patch from exact-text replacements.
spec:   @@ <file>\n<old text>\n====\n<new text>\n@@ <file> ...   (each <old text> must occur exactly once)"""
import sys, os, difflib, re
name = sys.argv[1]
repo = sys.argv[3] if len(sys.argv) > 3 and sys.argv[2] == "--repo" else "/repo"
spec = sys.stdin.read()
blocks = re.split(r'(?m)^@@ (\S+)\n', spec)[1:]
out = []
files = {}
for i in range(0, len(blocks), 2):
    f, body = blocks[i], blocks[i + 1]
    old, new = body.split("\n====\n")
    new = new.rstrip("\n")
    old = old.strip("\n")
    src = files.get(f) or open(os.path.join(repo, f)).read()
    if src.count(old) != 1:
        sys.exit("mkmut %s: old text occurs %d times in %s:\n%s" % (name, src.count(old), f, old))
    files[f] = src.replace(old, new.strip("\n") if "\n" in new or True else new)
for f, dst in files.items():
    src = open(os.path.join(repo, f)).read()
    out += list(difflib.unified_diff(src.splitlines(True), dst.splitlines(True), "a/" + f, "b/" + f))
open("/verif/mutants/%s.patch" % name, "w").write("".join(out))
print("wrote", name, sum(1 for l in out if l.startswith(("+", "-")) and not l.startswith(("+++", "---"))), "changed lines")
