#!/bin/bash
# usage: tools/seeded_verify.sh <PROP-ID> <A|B|...> [check ids to run, default: PROP-ID]
# Confirms a sub-agent's seeded change in a scratch copy of /repo (patch applies, suite passes with it,
# demonstration fails with it and passes without), runs the quick check(s) against it, and files it under /verif/seeded/.
set -u
id=$1; v=$2; shift 2; checks=${*:-$id}
src=/tmp/seed-out/$id/$v
[ -f $src/patch.diff ] || { echo "no $src/patch.diff"; exit 3; }
export GOFLAGS=-mod=mod GOPROXY=off GOSUMDB=off GOTOOLCHAIN=local
GO=/root/go/pkg/mod/golang.org/toolchain@v0.0.1-go1.24.2.linux-amd64/bin/go
wt=$(mktemp -d /tmp/verif-seedv-XXXXXX); trap 'rm -rf "$wt"' EXIT
rsync -a --exclude .git /repo/ $wt/
tests=$(grep -ohE '^func (Test[A-Za-z0-9_]+)' $src/demo_test.go | awk '{print $2}' | paste -sd'|')
cp $src/demo_test.go $wt/zz_demo_seed_test.go
(cd $wt && $GO test -vet=off -count=1 -run "^($tests)\$" . >$wt/.demo_clean.log 2>&1); demo_clean=$?
if ! (cd $wt && patch -p1 -s < $src/patch.diff); then echo "SEEDED $id-$v: PATCH DOES NOT APPLY"; exit 3; fi
(cd $wt && $GO test -vet=off -count=1 -run "^($tests)\$" . >$wt/.demo_mut.log 2>&1); demo_mut=$?
rm $wt/zz_demo_seed_test.go
suite=1
for try in 1 2; do
  (cd $wt && $GO test -vet=off -count=1 ./... >$wt/.suite.log 2>&1); suite=$?
  [ $suite = 0 ] && break
  grep -E '^--- FAIL' $wt/.suite.log | grep -v -E "TestRerankerWithFlatIndex|TestPersistentHybridIndex_CompactionThreshold" >/dev/null || { suite=0; break; }
done
echo "SEEDED $id-$v: demo_without_change=$demo_clean (want 0) demo_with_change=$demo_mut (want !=0) suite_with_change=$suite (want 0)"
[ $suite != 0 ] && grep -E '^(--- FAIL|FAIL|panic)' $wt/.suite.log | head
results=""
for c in $checks; do
  out=$(/verif/check $c --repo $wt --no-evidence 2>&1); rc=$?
  msg=$(echo "$out" | grep -A1 '^VIOLATION' | tail -1 | cut -c1-200)
  echo "  check $c rc=$rc $msg"
  results="$results\"$c\": {\"rc\": $rc, \"first_violation\": $(python3 -c 'import json,sys; print(json.dumps(sys.argv[1]))' "$msg")}, "
done
if [ $demo_clean = 0 ] && [ $demo_mut != 0 ] && [ $suite = 0 ]; then
  dst=/verif/seeded/$id-$v; mkdir -p $dst
  cp $src/patch.diff $dst/patch.diff; cp $src/demo_test.go $dst/demo_test.go; cp $src/README.md $dst/agent_README.md 2>/dev/null
  python3 - "$dst" "$id" "$v" "{${results%, }}" <<'P'
import json, sys, re, os
dst, pid, v, results = sys.argv[1:5]
readme = open(os.path.join(dst, "agent_README.md")).read() if os.path.exists(os.path.join(dst, "agent_README.md")) else ""
meta_path = os.path.join(dst, "meta.json")
meta = json.load(open(meta_path)) if os.path.exists(meta_path) else {}
meta.update({
  "property": pid, "variant": v, "origin": "independent sub-agent given only the property text and a scratch worktree",
  "confirmed": {"patch_applies": True, "existing_suite_passes_with_change": True, "demo_fails_with_change": True, "demo_passes_without_change": True,
                "how": "tools/seeded_verify.sh in a scratch copy of /repo"},
  "quick_check_results": json.loads(results),
})
meta.setdefault("needs_to_manifest", "see agent_README.md")
json.dump(meta, open(meta_path, "w"), indent=1)
P
  echo "  filed under $dst"
else
  echo "  NOT CONFIRMED - not filed"; tail -5 $wt/.demo_clean.log $wt/.demo_mut.log
fi
