#!/usr/bin/env python3
"""Adds the hand-written fields (change, needs_to_manifest, round, history) to the round-5b seeded metas
and appends their rows to seeded/INDEX.md. Run once after tools/seeded_verify.sh has filed the directories."""
import json, os

ROOT = os.path.join(os.path.dirname(os.path.abspath(__file__)), "..", "seeded")
R = {
 "C01-I": ("flat search drops tombstones lazily from the first k + pending sorted candidates; the sum overflows for huge k",
           "k near MaxInt with at least one pending tombstone", ""),
 "C01-J": ("flat index keeps an id -> slot map that is not renumbered when Flush compacts the slice; small id restrictions are resolved through it",
           "a Flush that moves survivors down, then a search restricted to fewer ids than the index holds", ""),
 "C02-I": ("flat Flush compacts in place by swap-remove and trims tombstoned vectors off the tail only once",
           "two or more tombstones of which one ends up at the tail after a swap", ""),
 "C02-J": ("PQ Execute skips the aggregation pass when there is one query VECTOR, not counting WithNode queries",
           "a PQ search with one query vector plus node-id queries", ""),
 "C03-I": ("BM25 fast path for small id restrictions probes the restriction against the posting bitmap and forgets the tombstone check",
           "a restriction smaller than a posting list that names a soft-deleted document", ""),
 "C03-J": ("BM25 Remove hard-deletes a token-less document at once, changing N and the average length before Flush",
           "removal of a document whose text tokenises to nothing, then a scored search before Flush", ""),
 "C04-I": ("metadata Add returns before registering a document without metadata in allDocs",
           "a live document without fields and a negative / not-exists filter", ""),
 "C04-J": ("Range and NotRange merged with an 'empty interval' shortcut that returns nothing for NotRange too",
           "Not(Range(min > max)) over documents that carry the field", ""),
 "C05-I": ("executeGroup leaves its loop as soon as the running result is empty, also for Logic: OR",
           "a FilterGroup with Logic OR whose first filter matches nothing",
           "outside C05's generated domain at the time (its groups were AND only) and the clause is C04's: caught by C04 after its generator learned to hand over groups that combine their own filters with OR (evalLogic in the reference evaluator)"),
 "C05-J": ("DefaultFusionConfig() hands out one shared mutable configuration",
           "a caller that modifies the returned config; any later fusion built with nil config",
           "missed by C05 at first (C19 already had the isolation clause); caught after a share of the C05 cases modify a copy obtained from DefaultFusionConfig() before the run"),
 "C08-I": ("flat search returns its pooled DocumentFilter twice",
           "filtered flat searches from several goroutines",
           "a concurrency defect: caught by C11 (filter_pool / store targets); C08 is sequential"),
 "C08-J": ("compaction sweeps 'orphaned' segment files at its end, including those of a flush in flight",
           "a compaction that finishes while a background flush has created its files and not yet registered the segment",
           "outside C08's generated domain (compaction is excluded there under KF-1); missed by C10's compaction variant at first, caught after every second compaction case parks a background flush at flush:written while the compaction runs and demands the late documents afterwards (the explicit Flush is issued only after the worker has finished, otherwise it rewrites the memtable and hides the loss)"),
 "C12-I": ("HNSW 'active vector counter' decremented at Remove and again at Flush, used as a search fast exit",
           "remove + flush histories that drive the counter to zero while vectors are live", ""),
 "C12-J": ("incoming node takes over a soft-deleted entry point before it is wired",
           "Add while the entry point is tombstoned, then any search", ""),
 "C14-I": ("PQ picks the top-k by a distance cutoff in storage order; ties at the cutoff crowd out nearer vectors",
           "several candidates tied at the k-th distance stored before a nearer one", ""),
 "C14-J": ("IVFPQ search object keeps its DocumentFilter after handing it back to the pool",
           "a restricted search object executed a second time after another filtered search ran",
           "missed at first; caught after C13 / C14 keep a restricted search object and execute it again after later operations"),
 "C16-I": ("hybrid ReadFrom returns success at a docInfo count of 0 without reading the sub-indexes",
           "streams of hybrid indexes without documents: prefixes and mismatching receivers", ""),
 "C16-J": ("store search takes a slot from a semaphore of 4 per segment load and leaks it when the load fails",
           "a store with five or more unloadable segments; the search never returns",
           "missed at first (one damaged segment per image); caught after the 'seven segments, five damaged' scenario, reported through the case deadline"),
 "C18-I": ("cosine Preprocess memoises its last result by slice address + length + squared norm",
           "the same buffer preprocessed again after an in-place change that keeps the norm, or after the earlier result was modified",
           "missed at first; caught after C18 calls Preprocess again on the same buffer after negating it in place and after writing into the earlier result"),
 "C18-J": ("cosine clamp refactored into a helper that only floors the distance at 0; dot < -1 is no longer clamped",
           "antipodal unit vectors whose float32 dot product falls below -1", ""),
}

rows = []
for key, (change, needs, hist) in R.items():
    p = os.path.join(ROOT, key, "meta.json")
    m = json.load(open(p))
    m["change"], m["needs_to_manifest"], m["round"] = change, needs, 5
    if hist:
        m["history"] = hist
    json.dump(m, open(p, "w"), indent=1)
    res = ", ".join("%s=%d" % (c, r["rc"]) for c, r in m["quick_check_results"].items())
    rows.append("| %s | %s | %s | %s | %s |" % (key, change, needs, res, hist))

idx = os.path.join(ROOT, "INDEX.md")
s = open(idx).read().rstrip("\n")
have = {l.split("|")[1].strip() for l in s.splitlines() if l.startswith("| C")}
s += "\n" + "\n".join(r for r in rows if r.split("|")[1].strip() not in have) + "\n"
open(idx, "w").write(s)
print("rows appended:", sum(1 for r in rows if r.split("|")[1].strip() not in have))
