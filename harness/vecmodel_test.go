package comet

// Shared pieces for the vector-index checks: vector generators, the float64 distance
// oracle, and the tie-tolerant top-k comparison of DESIGN 3.3.

import (
	"fmt"
	"math"
	"sort"

	"pgregory.net/rapid"
)

var vfMetrics = []DistanceKind{Euclidean, L2Squared, Cosine}

// ---- generators ----------------------------------------------------------------

// vfVecGen draws vectors of one "flavour" per case, remembering what it produced so
// that near-duplicates can be derived.
type vfVecGen struct {
	dim     int
	flavour int // 0 grid, 1 uniform, 2 scaled, 3 sparse, 4 mixed (any of the above + near duplicates)
	scale   float64
	made    [][]float32
}

func vfNewVecGen(rt *rapid.T, dim int) *vfVecGen {
	g := &vfVecGen{dim: dim}
	g.flavour = rapid.IntRange(0, 4).Draw(rt, "vec_flavour")
	g.scale = rapid.SampledFrom([]float64{1e-3, 0.1, 1, 10, 1e3, 1e-9, 1e9}).Draw(rt, "vec_scale")
	return g
}

// vfNewVecGenFor: under cosine only the DIRECTION of a vector matters, so any finite magnitude is in
// the domain: scales whose squares leave float32's range (1e-25, 1e20) are drawn as well. (For the
// Euclidean family the squares of the components have to stay inside float32's normal range - the
// kernels accumulate in float32 - which is the documented precondition 1e-9..1e9 here.)
func vfNewVecGenFor(rt *rapid.T, dim int, kind DistanceKind) *vfVecGen {
	g := vfNewVecGen(rt, dim)
	if kind == Cosine && rapid.IntRange(0, 5).Draw(rt, "extreme_magnitude") == 0 {
		g.scale = rapid.SampledFrom([]float64{1e-25, 1e20, 1e-30, 3e37}).Draw(rt, "vec_scale_extreme")
		if g.flavour != 2 {
			g.flavour = 2 // the scaled flavour
		}
	}
	return g
}

func vfSnap(x float64) float64 {
	if math.Abs(x) < 1e-3 {
		return 0
	}
	return x
}

func (g *vfVecGen) draw(rt *rapid.T, label string) []float32 {
	fl := g.flavour
	if fl == 4 {
		fl = rapid.IntRange(0, 4).Draw(rt, label+"_fl")
	}
	v := make([]float32, g.dim)
	switch fl {
	case 0:
		for i := range v {
			v[i] = float32(rapid.IntRange(-3, 3).Draw(rt, label))
		}
	case 1:
		for i := range v {
			v[i] = float32(vfSnap(rapid.Float64Range(-3, 3).Draw(rt, label)))
		}
	case 2:
		for i := range v {
			v[i] = float32(g.scale * vfSnap(rapid.Float64Range(-3, 3).Draw(rt, label)))
		}
	case 3:
		n := rapid.IntRange(1, 2).Draw(rt, label+"_nnz")
		for j := 0; j < n; j++ {
			v[rapid.IntRange(0, g.dim-1).Draw(rt, label+"_pos")] = float32(rapid.SampledFrom([]float64{1, -1, 2, 0.5, -3}).Draw(rt, label+"_val"))
		}
	case 4: // near duplicate of something made earlier (or an exact duplicate)
		if len(g.made) == 0 {
			for i := range v {
				v[i] = float32(rapid.IntRange(-3, 3).Draw(rt, label))
			}
			break
		}
		src := g.made[rapid.IntRange(0, len(g.made)-1).Draw(rt, label+"_dupof")]
		copy(v, src)
		if rapid.Bool().Draw(rt, label+"_perturb") {
			i := rapid.IntRange(0, g.dim-1).Draw(rt, label+"_pi")
			v[i] += float32(1e-6 * math.Max(1, math.Abs(float64(v[i]))))
		}
	}
	g.made = append(g.made, vfCloneF32(v))
	return v
}

func vfIsZero(v []float32) bool {
	for _, x := range v {
		if x != 0 {
			return false
		}
	}
	return true
}

// drawNonZero never returns the zero vector (needed where cosine would reject it).
func (g *vfVecGen) drawNonZero(rt *rapid.T, label string) []float32 {
	v := g.draw(rt, label)
	if vfIsZero(v) {
		v[rapid.IntRange(0, g.dim-1).Draw(rt, label+"_nz")] = 1
		g.made[len(g.made)-1] = vfCloneF32(v)
	}
	return v
}

// vfGenRemovePayload draws the vector carried by the node handed to Remove. Remove is documented
// to match on the id only ("only the ID field is used for matching"), so the payload may be
// absent, any vector of the index's dimension (unrelated to the stored one), or of another length.
func vfGenRemovePayload(rt *rapid.T, g *vfVecGen) []float32 {
	switch rapid.IntRange(0, 5).Draw(rt, "rm_payload") {
	case 0, 1, 2:
		return nil
	case 3, 4:
		v := g.draw(rt, "rm_vec")
		g.made = g.made[:len(g.made)-1]
		return v
	default:
		return make([]float32, g.dim+1)
	}
}

// vfGenK draws a result limit: mostly around the number of live vectors, sometimes far outside
// ("every k in Z": a limit is not a size to allocate).
func vfGenK(rt *rapid.T, lo, nLive, slack int) int {
	if rapid.IntRange(0, 19).Draw(rt, "k_extreme") == 0 {
		return rapid.SampledFrom([]int{math.MaxInt32, math.MaxInt64, math.MinInt64, math.MinInt32, 1 << 40, -(1 << 40), 1000000}).Draw(rt, "k_huge")
	}
	return rapid.IntRange(lo, nLive+slack).Draw(rt, "k")
}

// vfGenID draws a fresh non-zero id: mostly small, sometimes huge (container boundaries).
func vfGenFreshID(rt *rapid.T, used map[uint32]bool) uint32 {
	for tries := 0; ; tries++ {
		var id uint32
		switch rapid.IntRange(0, 9).Draw(rt, "idclass") {
		case 0:
			id = rapid.SampledFrom([]uint32{1 << 31, math.MaxUint32, 65535, 65536, 65537, 1<<31 + 1, 1 << 16 * 3}).Draw(rt, "bigid")
		default:
			id = uint32(rapid.IntRange(1, 64+tries*64).Draw(rt, "id"))
		}
		if !used[id] {
			used[id] = true
			return id
		}
	}
}

// ---- distance oracle -----------------------------------------------------------------

func vfSmallInts(v []float32) bool {
	for _, x := range v {
		if x != float32(math.Trunc(float64(x))) || x > 100 || x < -100 {
			return false
		}
	}
	return true
}

// vfOracleDist returns the reference distance between the ORIGINAL query and the ORIGINAL
// stored vector, and the tolerance within which a float32 implementation must agree.
// For small-integer vectors under the L2 family the float32 computation is exact and
// the tolerance is zero.
func vfOracleDist(kind DistanceKind, q, v []float32) (want, tol float64) {
	n := float64(len(q))
	switch kind {
	case L2Squared, Euclidean:
		s := vfRefL2Sq(q, v)
		exact := len(q) <= 64 && vfSmallInts(q) && vfSmallInts(v)
		if kind == L2Squared {
			if exact {
				return s, 0
			}
			return s, (n+4)*2*vfEps32*s + 1e-30
		}
		if exact {
			return float64(float32(math.Sqrt(s))), 0
		}
		w := math.Sqrt(s)
		return w, (n/2+4)*2*vfEps32*w + 1e-30
	case Cosine:
		return vfRefCosDist(q, v), (4*n + 20) * vfEps32
	}
	panic("unknown metric")
}

// ---- top-k comparison ----------------------------------------------------------------

type vfHit struct {
	ID    uint32
	Score float32
}

type vfCand struct {
	ID       uint32
	Want     float64
	Tol      float64
	Optional bool // within tolerance of the threshold: may legitimately be in or out
}

func vfExpectedCount(k, n int) int {
	if k <= 0 || k > n {
		return n
	}
	return k
}

// vfCompareTopK checks order, validity, uniqueness and two-directional completeness of
// `got` against the candidate set (every candidate is eligible; Want is its oracle score).
// ascending: smaller is better (vector distances); otherwise larger is better.
func vfCompareTopK(got []vfHit, cands []vfCand, k int, ascending bool) *vfViolation {
	byID := make(map[uint32]vfCand, len(cands))
	definite := 0
	for _, c := range cands {
		byID[c.ID] = c
		if !c.Optional {
			definite++
		}
	}
	seen := make(map[uint32]bool, len(got))
	for i, h := range got {
		if math.IsNaN(float64(h.Score)) {
			return vfFail("result %d (id %d) has NaN score", i, h.ID)
		}
		if i > 0 {
			if ascending && got[i-1].Score > h.Score || !ascending && got[i-1].Score < h.Score {
				return vfFail("results out of order at %d: %v then %v (ids %d,%d)", i, got[i-1].Score, h.Score, got[i-1].ID, h.ID)
			}
		}
		if seen[h.ID] {
			return vfFail("id %d returned twice", h.ID)
		}
		seen[h.ID] = true
		c, ok := byID[h.ID]
		if !ok {
			return vfFail("id %d returned but it is not an eligible live candidate (score %v)", h.ID, h.Score)
		}
		if math.Abs(float64(h.Score)-c.Want) > c.Tol {
			return vfFail("id %d: score %v, oracle %v (tolerance %g)", h.ID, h.Score, c.Want, c.Tol)
		}
	}
	lo, hi := vfExpectedCount(k, definite), vfExpectedCount(k, len(cands))
	if len(got) < lo || len(got) > hi {
		return vfFail("returned %d results, expected %s (k=%d, %d eligible of which %d are threshold-borderline)", len(got), vfRange(lo, hi), k, len(cands), len(cands)-definite)
	}
	// nothing definitely better was left out
	if len(got) > 0 {
		worst := got[len(got)-1]
		wc := byID[worst.ID]
		for _, c := range cands {
			if c.Optional || seen[c.ID] {
				continue
			}
			if ascending && c.Want+c.Tol < wc.Want-wc.Tol || !ascending && c.Want-c.Tol > wc.Want+wc.Tol {
				return vfFail("id %d (oracle score %v) is eligible and strictly better than returned id %d (oracle score %v) but was left out", c.ID, c.Want, worst.ID, wc.Want)
			}
		}
	} else if lo > 0 {
		return vfFail("no results although %d candidates are eligible", definite)
	}
	// multiset of scores equals the oracle's best, rank by rank
	if definite == len(cands) {
		wants := make([]vfCand, len(cands))
		copy(wants, cands)
		sort.Slice(wants, func(i, j int) bool {
			if ascending {
				return wants[i].Want < wants[j].Want
			}
			return wants[i].Want > wants[j].Want
		})
		for i, h := range got {
			if math.Abs(float64(h.Score)-wants[i].Want) > wants[i].Tol+byID[h.ID].Tol {
				return vfFail("rank %d: score %v, oracle's rank-%d score is %v", i, h.Score, i, wants[i].Want)
			}
		}
	}
	return nil
}

func vfRange(lo, hi int) string {
	if lo == hi {
		return fmt.Sprint(lo)
	}
	return fmt.Sprintf("%d..%d", lo, hi)
}

func vfHitsOf(res []VectorResult) []vfHit {
	out := make([]vfHit, len(res))
	for i, r := range res {
		out[i] = vfHit{ID: r.GetId(), Score: r.GetScore()}
	}
	return out
}

// vfThresholdRelation is a tolerance-free metamorphic check of "a positive threshold only
// removes candidates": the result for threshold thr and limit k must be the unthresholded,
// unlimited result restricted to reported scores <= thr, truncated to k. `all` is that
// unthresholded result (ascending); scores are deterministic per id, so equality is exact.
func vfThresholdRelation(all, got []vfHit, thr float32, k int) *vfViolation {
	if thr <= 0 {
		return nil
	}
	var exp []vfHit
	scoreOf := map[uint32]float32{}
	for _, h := range all {
		if h.Score <= thr {
			exp = append(exp, h)
			scoreOf[h.ID] = h.Score
		}
	}
	want := vfExpectedCount(k, len(exp))
	if len(got) != want {
		return vfFail("threshold %v, k=%d: %d results, but the unthresholded search reports %d candidates with score <= threshold (expected %d results)", thr, k, len(got), len(exp), want)
	}
	for i, h := range got {
		s, ok := scoreOf[h.ID]
		if !ok {
			return vfFail("threshold %v: id %d (score %v) returned, but the unthresholded search does not report it with a score <= threshold", thr, h.ID, h.Score)
		}
		if math.Float32bits(s) != math.Float32bits(h.Score) {
			return vfFail("threshold %v: id %d has score %v, but %v without the threshold", thr, h.ID, h.Score, s)
		}
		if math.Float32bits(exp[i].Score) != math.Float32bits(h.Score) {
			return vfFail("threshold %v: rank %d has score %v, expected %v (the rank-%d score of the unthresholded search)", thr, i, h.Score, exp[i].Score, i)
		}
	}
	return nil
}

// vfSameAnswer executes an old search object and a newly built one with the same parameters on the same
// index state and describes the first difference ("" if none): both succeed or both fail, same number of
// hits, the same score at every rank (ids may differ inside a tie).
func vfSameAnswer(old, fresh VectorSearch) string {
	a, errA := old.Execute()
	b, errB := fresh.Execute()
	if (errA == nil) != (errB == nil) {
		return fmt.Sprintf("the old object reports error %v, a new one %v", errA, errB)
	}
	if errA != nil {
		return ""
	}
	ha, hb := vfHitsOf(a), vfHitsOf(b)
	if len(ha) != len(hb) {
		return fmt.Sprintf("the old object returns %d results, a new one with the same parameters %d", len(ha), len(hb))
	}
	for j := range ha {
		if ha[j].Score != hb[j].Score {
			return fmt.Sprintf("rank %d: the old object returns id %d score %v, a new one with the same parameters id %d score %v", j, ha[j].ID, ha[j].Score, hb[j].ID, hb[j].Score)
		}
	}
	return ""
}
