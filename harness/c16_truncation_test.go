package comet

// C16 — truncated or mismatched serialised data is rejected, never half-loaded.
// Fault enumeration on top of generated states: every strict prefix of the stream (all of them
// for small streams, all field boundaries +-1 and a stratified sample beyond), every receiver
// that differs in kind or in exactly one construction parameter, and a patched version word.

import (
	"bytes"
	"encoding/binary"
	"fmt"
	"io"
	"os"
	"path/filepath"
	"sort"
	"strconv"
	"strings"
	"testing"
	"time"

	"pgregory.net/rapid"
)

func vfC16Gen(rt *rapid.T) vfSerCase { return vfSerGen(rt, vfSerKinds) }

// vfBoundaryWriter records the stream offset after every Write call (= field boundaries).
type vfBoundaryWriter struct {
	buf        bytes.Buffer
	boundaries []int
}

func (w *vfBoundaryWriter) Write(p []byte) (int, error) {
	n, err := w.buf.Write(p)
	w.boundaries = append(w.boundaries, w.buf.Len())
	return n, err
}

// vfReadGuarded runs a ReadFrom with a recover and a 10 s guard.
func vfReadGuarded(dst *vfSerState, data []byte) (err error, panicked interface{}, hung bool) {
	type outcome struct {
		err error
		p   interface{}
	}
	ch := make(chan outcome, 1)
	go func() {
		var o outcome
		defer func() {
			if r := recover(); r != nil {
				o.p = r
			}
			ch <- o
		}()
		_, o.err = dst.read(vfMaybeChunked(bytes.NewReader(data), dst.c.Chunk))
	}()
	select {
	case o := <-ch:
		return o.err, o.p, false
	case <-time.After(10 * time.Second):
		return nil, nil, true
	}
}

// vfMismatchedReceivers returns receivers that differ from the case's construction in exactly
// one parameter (or in kind), each with a description.
func vfMismatchedReceivers(c *vfSerCase) (out []*vfSerState, desc []string) {
	add := func(mod func(cc *vfSerCase), d string) {
		cc := *c
		if c.Vec != nil {
			v := *c.Vec
			cc.Vec = &v
		}
		if c.Hyb != nil {
			h := *c.Hyb
			cc.Hyb = &h
		}
		mod(&cc)
		s, err := vfSerNew(&cc, false)
		if err == nil {
			out = append(out, s)
			desc = append(desc, d)
		}
	}
	otherMetric := func(m string) string {
		if m == string(Euclidean) {
			return string(Cosine)
		}
		return string(Euclidean)
	}
	switch c.Kind {
	case "flat", "hnsw", "ivf", "pq", "ivfpq":
		add(func(cc *vfSerCase) {
			cc.Vec.Dim *= 2
		}, "dimension doubled")
		add(func(cc *vfSerCase) { cc.Vec.Metric = otherMetric(cc.Vec.Metric) }, "other metric")
		if c.Vec.Metric != string(L2Squared) {
			add(func(cc *vfSerCase) { cc.Vec.Metric = string(L2Squared) }, "metric l2_squared")
		}
		if c.Vec.Dim > 1 {
			add(func(cc *vfSerCase) {
				cc.Vec.Dim--
				if cc.Vec.M > 0 && cc.Vec.Dim%cc.Vec.M != 0 {
					cc.Vec.M = 1
				}
			}, "dimension-1")
		}
		switch c.Kind {
		case "hnsw":
			if c.Vec.M > 2 {
				add(func(cc *vfSerCase) { cc.Vec.M-- }, "M-1")
			}
			if c.Vec.EfC > 1 {
				add(func(cc *vfSerCase) { cc.Vec.EfC-- }, "efConstruction-1")
			}
			if c.Vec.EfS > 1 {
				add(func(cc *vfSerCase) { cc.Vec.EfS-- }, "efSearch-1")
			}
			add(func(cc *vfSerCase) { cc.Vec.M++ }, "M+1")
			add(func(cc *vfSerCase) { cc.Vec.EfC++ }, "efConstruction+1")
			add(func(cc *vfSerCase) { cc.Vec.EfS++ }, "efSearch+1")
		case "ivf":
			add(func(cc *vfSerCase) { cc.Vec.NList++ }, "nlist+1")
			if c.Vec.NList > 1 {
				add(func(cc *vfSerCase) { cc.Vec.NList-- }, "nlist-1")
			}
		case "pq":
			if c.Vec.NBits > 1 {
				add(func(cc *vfSerCase) { cc.Vec.NBits-- }, "nbits-1")
			}
			if c.Vec.NBits < 8 {
				add(func(cc *vfSerCase) { cc.Vec.NBits++ }, "nbits+1")
			}
			if c.Vec.Dim%(c.Vec.M*2) == 0 {
				add(func(cc *vfSerCase) { cc.Vec.M *= 2 }, "M doubled")
			} else if c.Vec.M > 1 {
				add(func(cc *vfSerCase) { cc.Vec.M = 1 }, "M=1")
			}
		case "ivfpq":
			add(func(cc *vfSerCase) { cc.Vec.NList++ }, "nlist+1")
			if c.Vec.NList > 1 {
				add(func(cc *vfSerCase) { cc.Vec.NList-- }, "nlist-1")
			}
			if c.Vec.NBits > 1 {
				add(func(cc *vfSerCase) { cc.Vec.NBits-- }, "nbits-1")
			}
			if c.Vec.NBits < 8 {
				add(func(cc *vfSerCase) { cc.Vec.NBits++ }, "nbits+1")
			}
			if c.Vec.M > 1 {
				add(func(cc *vfSerCase) { cc.Vec.M = 1 }, "M=1")
			} else if c.Vec.Dim%2 == 0 {
				add(func(cc *vfSerCase) { cc.Vec.M = 2 }, "M=2")
			}
		}
		// another kind with the same dimension / metric
		for _, k := range []string{"flat", "hnsw", "ivf", "pq", "ivfpq"} {
			if k == c.Kind {
				continue
			}
			k := k
			add(func(cc *vfSerCase) {
				cc.Kind, cc.Vec.Kind = k, k
				if cc.Vec.M < 1 || cc.Vec.Dim%cc.Vec.M != 0 {
					cc.Vec.M = 1
				}
				if cc.Vec.NBits < 1 || cc.Vec.NBits > 8 {
					cc.Vec.NBits = 2
				}
				if cc.Vec.NList < 1 {
					cc.Vec.NList = 2
				}
				if k == "hnsw" && cc.Vec.EfC < 1 {
					cc.Vec.M, cc.Vec.EfC, cc.Vec.EfS = 8, 50, 50
				}
			}, "receiver of kind "+k)
		}
		add(func(cc *vfSerCase) { cc.Kind, cc.Vec, cc.Text = "bm25", nil, &vfC03Case{} }, "receiver of kind bm25")
		add(func(cc *vfSerCase) { cc.Kind, cc.Vec, cc.Meta = "metadata", nil, &vfC04Case{} }, "receiver of kind metadata")
	case "bm25":
		add(func(cc *vfSerCase) { cc.Kind, cc.Text, cc.Meta = "metadata", nil, &vfC04Case{} }, "receiver of kind metadata")
		add(func(cc *vfSerCase) {
			cc.Kind, cc.Text, cc.Vec = "flat", nil, &vfC02Case{Kind: "flat", Dim: 2, Metric: string(Euclidean)}
		}, "receiver of kind flat")
	case "metadata":
		add(func(cc *vfSerCase) { cc.Kind, cc.Meta, cc.Text = "bm25", nil, &vfC03Case{} }, "receiver of kind bm25")
		add(func(cc *vfSerCase) {
			cc.Kind, cc.Meta, cc.Vec = "flat", nil, &vfC02Case{Kind: "flat", Dim: 2, Metric: string(Euclidean)}
		}, "receiver of kind flat")
	case "hybrid":
		add(func(cc *vfSerCase) { cc.Hyb.HasVec = !cc.Hyb.HasVec }, "vector sub-index presence flipped")
		add(func(cc *vfSerCase) { cc.Hyb.HasText = !cc.Hyb.HasText }, "text sub-index presence flipped")
		add(func(cc *vfSerCase) { cc.Hyb.HasMeta = !cc.Hyb.HasMeta }, "metadata sub-index presence flipped")
		if c.Hyb.HasVec {
			add(func(cc *vfSerCase) { cc.Hyb.Dim++ }, "vector dimension+1")
			add(func(cc *vfSerCase) { cc.Hyb.Metric = otherMetric(cc.Hyb.Metric) }, "other metric")
			add(func(cc *vfSerCase) {
				if cc.Hyb.VecKind == "flat" {
					cc.Hyb.VecKind = "hnsw"
				} else {
					cc.Hyb.VecKind = "flat"
				}
			}, "other vector index kind")
		}
		add(func(cc *vfSerCase) { cc.Kind, cc.Hyb, cc.Text = "bm25", nil, &vfC03Case{} }, "receiver of kind bm25")
	}
	// every OTHER kind, with small default parameters (the pairings not listed above)
	have := map[string]bool{}
	for _, d := range desc {
		if strings.HasPrefix(d, "receiver of kind ") {
			have[strings.TrimPrefix(d, "receiver of kind ")] = true
		}
	}
	for _, k := range []string{"flat", "hnsw", "ivf", "pq", "ivfpq", "bm25", "metadata", "hybrid"} {
		if k == c.Kind || have[k] {
			continue
		}
		k := k
		add(func(cc *vfSerCase) {
			cc.Kind, cc.Vec, cc.Text, cc.Meta, cc.Hyb = k, nil, nil, nil, nil
			switch k {
			case "bm25":
				cc.Text = &vfC03Case{}
			case "metadata":
				cc.Meta = &vfC04Case{}
			case "hybrid":
				cc.Hyb = &vfC05Case{HasVec: true, HasText: true, HasMeta: true, VecKind: "flat", Metric: string(Euclidean), Dim: 2}
			default:
				cc.Vec = &vfC02Case{Kind: k, Dim: 2, Metric: string(Euclidean), M: 1, NBits: 2, NList: 2, EfC: 50, EfS: 50}
				if k == "hnsw" {
					cc.Vec.M = 8
				}
			}
		}, "receiver of kind "+k)
	}
	return out, desc
}

func vfC16Run(c vfSerCase, ctx *vfCtx) *vfViolation {
	src, err := vfSerNew(&c, true)
	if err != nil {
		return vfFail("building a %s: %v", c.Kind, err)
	}
	ctx.Class("kind=" + c.Kind)
	src.applyHistory()

	// serialise through boundary-recording writers
	var stream []byte
	var boundaries []int
	var partStarts []int
	if c.Kind == "hybrid" {
		ws := []*vfBoundaryWriter{{}, {}, {}, {}}
		if err := src.hy.WriteTo(ws[0], ws[1], ws[2], ws[3]); err != nil {
			return vfFail("hybrid WriteTo: %v", err)
		}
		for _, w := range ws {
			off := len(stream)
			if w.buf.Len() > 0 {
				partStarts = append(partStarts, off)
			}
			for _, b := range w.boundaries {
				boundaries = append(boundaries, off+b)
			}
			stream = append(stream, w.buf.Bytes()...)
		}
	} else {
		w := &vfBoundaryWriter{}
		var werr error
		switch c.Kind {
		case "bm25":
			_, werr = src.bm.WriteTo(w)
		case "metadata":
			_, werr = src.mi.WriteTo(w)
		default:
			_, werr = src.ut.idx.WriteTo(w)
		}
		if werr != nil {
			return vfFail("%s WriteTo: %v", c.Kind, werr)
		}
		stream, boundaries = w.buf.Bytes(), w.boundaries
		partStarts = []int{0}
	}
	// sanity: the full stream loads
	full, err := vfSerNew(&c, false)
	if err != nil {
		return vfFail("constructing the receiver: %v", err)
	}
	if err, p, hung := vfReadGuarded(full, stream); err != nil || p != nil || hung {
		return vfFail("%s: the complete stream (%d bytes) does not load: err=%v panic=%v hung=%v", c.Kind, len(stream), err, p, hung)
	}

	// (a) strict prefixes
	limit := 1500
	if ctx.Thorough() {
		limit = 4096
	}
	var cuts []int
	if len(stream) <= limit {
		for n := 0; n < len(stream); n++ {
			cuts = append(cuts, n)
		}
		ctx.Class("all_prefixes_enumerated")
	} else {
		set := map[int]bool{0: true, len(stream) - 1: true}
		for _, b := range boundaries {
			for _, d := range []int{-1, 0, 1} {
				if n := b + d; n >= 0 && n < len(stream) {
					set[n] = true
				}
			}
		}
		if len(set) > 3000 { // huge streams: thin the boundary set deterministically
			keys := make([]int, 0, len(set))
			for k := range set {
				keys = append(keys, k)
			}
			sort.Ints(keys)
			set = map[int]bool{}
			step := len(keys)/3000 + 1
			for i := 0; i < len(keys); i += step {
				set[keys[i]] = true
			}
		}
		for i := 0; i < 256; i++ {
			set[i*len(stream)/256] = true
		}
		for n := range set {
			cuts = append(cuts, n)
		}
		sort.Ints(cuts)
		ctx.Class("boundaries_and_stratified_prefixes")
	}
	for _, n := range cuts {
		dst, err := vfSerNew(&c, false)
		if err != nil {
			return vfFail("constructing the receiver: %v", err)
		}
		rerr, p, hung := vfReadGuarded(dst, stream[:n])
		switch {
		case p != nil:
			return vfFail("%s: ReadFrom PANICS on the %d-byte prefix of a %d-byte stream: %v", c.Kind, n, len(stream), p)
		case hung:
			return vfFail("%s: ReadFrom hangs (> 10 s) on the %d-byte prefix of a %d-byte stream", c.Kind, n, len(stream))
		case rerr == nil:
			return vfFail("%s: ReadFrom reports SUCCESS on the %d-byte strict prefix of a %d-byte stream (%d resident documents)", c.Kind, n, len(stream), len(src.live))
		}
	}
	ctx.Count("points_enumerated", int64(len(cuts)))
	ctx.Count("images_checked", int64(len(cuts)))

	// (b) mismatching receivers
	recv, desc := vfMismatchedReceivers(&c)
	for i, r := range recv {
		rerr, p, hung := vfReadGuarded(r, stream)
		switch {
		case p != nil:
			return vfFail("%s stream read into a receiver with %s: PANIC %v", c.Kind, desc[i], p)
		case hung:
			return vfFail("%s stream read into a receiver with %s: hangs", c.Kind, desc[i])
		case rerr == nil:
			return vfFail("%s stream (%d bytes) is ACCEPTED by a receiver with %s", c.Kind, len(stream), desc[i])
		}
	}
	ctx.Count("images_checked", int64(len(recv)))
	ctx.Count("mismatching_receivers", int64(len(recv)))
	// patched version word (bytes 4..8 of every component stream)
	for _, ps := range partStarts {
		if ps+8 > len(stream) {
			continue
		}
		ver := binary.LittleEndian.Uint32(stream[ps+4:])
		for _, other := range []uint32{ver + 1, ver + 255, 0, ver - 1, 0xFFFFFFFF, ver << 8} {
			if other == ver {
				continue
			}
			patched := append([]byte{}, stream...)
			binary.LittleEndian.PutUint32(patched[ps+4:], other)
			dst, err := vfSerNew(&c, false)
			if err != nil {
				return vfFail("constructing the receiver: %v", err)
			}
			rerr, p, hung := vfReadGuarded(dst, patched)
			if p != nil || hung || rerr == nil {
				return vfFail("%s: a stream whose format version (component at offset %d) is changed from %d to %d is not rejected: err=%v panic=%v hung=%v", c.Kind, ps, ver, other, rerr, p, hung)
			}
			ctx.Count("images_checked", 1)
		}
	}
	if len(src.live) >= 1 && len(stream) >= 40 {
		ctx.NonTrivial()
	}
	ctx.ClassIf(c.Untrained, "untrained_state")
	ctx.ClassIf(len(src.live) == 0, "empty_or_all_removed_state")
	_ = io.EOF
	_ = fmt.Sprint
	return nil
}

// vfC16Segments: clause (c) — a store directory with three segments in which one component
// file of the middle segment is truncated to chosen prefixes / emptied / deleted: Open and
// searches succeed, exactly the documents of the undamaged segments are found, and the damaged
// segment contributes none of its documents (also when the cut lies inside the gzip trailer of the
// file that is read last: F23).
func vfC16Segments(seedCase *vfSerCase, ctx *vfCtx) *vfViolation {
	root, err := os.MkdirTemp(vfEnv("VERIF_SCRATCH"), "c16seg-")
	if err != nil {
		return vfFail("mkdir: %v", err)
	}
	defer os.RemoveAll(root)
	conf := vfStoreConf{VecKind: "flat", Metric: string(Euclidean), Dim: 2, HasText: true, HasMeta: true, MemLimit: 100000, FlushThr: 1 << 40, CompThr: 5}
	switch len(seedCase.Kind) % 3 { // vary the configured modalities with the generated case
	case 1:
		conf.HasText = false
	case 2:
		conf.HasMeta = false
	}
	live := filepath.Join(root, "live")
	st, err := vfOpenStore(live, &conf)
	if err != nil {
		return vfFail("Open: %v", err)
	}
	segDocs := make([]map[uint32]*vfStoreDoc, 3)
	everAdded := map[uint32]bool{1<<30 + 1<<21 + 900000: true}
	n := 0
	for sidx := 0; sidx < 3; sidx++ {
		segDocs[sidx] = map[uint32]*vfStoreDoc{}
		for j := 0; j < 2; j++ {
			n++
			d := &vfStoreDoc{N: n, Vec: []float32{float32(n), float32(j + 1)}, Word: "fox"}
			id, err := vfStoreAdd(st, &conf, d)
			if err != nil {
				st.Close()
				return vfFail("add: %v", err)
			}
			segDocs[sidx][id] = d
			everAdded[id] = true
		}
		if err := st.Flush(); err != nil {
			st.Close()
			return vfFail("Flush: %v", err)
		}
	}
	if err := st.Close(); err != nil {
		return vfFail("Close: %v", err)
	}
	final := vfReadDirImage(live)
	undamaged := map[uint32]*vfStoreDoc{}
	for _, sidx := range []int{0, 2} {
		for id, d := range segDocs[sidx] {
			undamaged[id] = d
		}
	}
	// only the files of the two undamaged segments are protected: a store may clean up the damaged one
	vfProtectedFiles = map[string]bool{}
	for name := range final {
		if !strings.Contains(name, "_000002.") {
			vfProtectedFiles[name] = true
		}
	}
	defer func() { vfProtectedFiles = nil }()
	vfDamagedMustBeAbsent = true
	defer func() { vfDamagedMustBeAbsent = false }()
	seq := 0
	images := int64(0)
	for _, kindName := range []string{"hybrid", "vector", "text", "metadata"} {
		name := kindName + "_000002.bin.gz"
		data, ok := final[name]
		if !ok {
			continue
		}
		cuts := map[int]bool{0: true}
		for i := 0; i < 16; i++ {
			cuts[i*len(data)/16] = true
		}
		for i := len(data) - 9; i < len(data); i++ {
			if i > 0 {
				cuts[i] = true
			}
		}
		var cl []int
		for k := range cuts {
			cl = append(cl, k)
		}
		sort.Ints(cl)
		cl = append(cl, -1) // -1: file missing
		for _, cut := range cl {
			img := final.clone()
			what := name + " missing"
			if cut >= 0 {
				img[name] = data[:cut]
				what = fmt.Sprintf("%s cut to %d of %d bytes", name, cut, len(data))
			} else {
				delete(img, name)
			}
			seq++
			images++
			if seq%4 == 0 {
				vfImageConcurrentSearches = 4
			}
			v := vfCheckCrashImage(root, seq, img, &conf, undamaged, segDocs[1], everAdded, "segment 2 of 3: "+what)
			vfImageConcurrentSearches = 0
			if v != nil {
				return v
			}
		}
	}
	// many damaged segments at once: seven segments of which five are unloadable, each in its own way;
	// Open and every search still return, and the two undamaged segments are served
	{
		many := filepath.Join(root, "many")
		st, err := vfOpenStore(many, &conf)
		if err != nil {
			return vfFail("Open: %v", err)
		}
		good := map[uint32]*vfStoreDoc{}
		ever := map[uint32]bool{1<<30 + 1<<21 + 900000: true}
		for sidx := 0; sidx < 7; sidx++ {
			for j := 0; j < 2; j++ {
				n++
				d := &vfStoreDoc{N: n, Vec: []float32{float32(n), float32(j + 1)}, Word: "fox"}
				id, err := vfStoreAdd(st, &conf, d)
				if err != nil {
					st.Close()
					return vfFail("add: %v", err)
				}
				ever[id] = true
				if sidx == 2 || sidx == 6 {
					good[id] = d
				}
			}
			if err := st.Flush(); err != nil {
				st.Close()
				return vfFail("Flush: %v", err)
			}
		}
		if err := st.Close(); err != nil {
			return vfFail("Close: %v", err)
		}
		img := vfReadDirImage(many)
		vfProtectedFiles = map[string]bool{}
		damage := 0
		for name, data := range img {
			m := vfSegFileRe.FindStringSubmatch(name)
			if m == nil {
				continue
			}
			sid, _ := strconv.ParseUint(m[2], 10, 64)
			if sid == 3 || sid == 7 {
				vfProtectedFiles[name] = true
				continue
			}
			// segment sid is damaged in its hybrid file (half), vector file (emptied), text file (missing) ...
			switch {
			case m[1] == "hybrid" && sid%3 == 1:
				img[name] = data[:len(data)/2]
				damage++
			case m[1] == "vector" && sid%3 == 2:
				img[name] = nil
				damage++
			case m[1] == "hybrid" && sid%3 == 0:
				delete(img, name)
				damage++
			}
		}
		if damage >= 4 {
			seq++
			vfImageConcurrentSearches = 8
			v := vfCheckCrashImage(root, seq, img, &conf, good, map[uint32]*vfStoreDoc{}, ever, fmt.Sprintf("seven segments, %d of them damaged", damage))
			vfImageConcurrentSearches = 0
			if v != nil {
				return v
			}
			ctx.Class("concurrent_first_searches_over_damaged_segments")
			images++
			ctx.Class("many_damaged_segments")
		}
	}
	ctx.Count("images_checked", images)
	ctx.Count("segment_images_checked", images)
	ctx.Class("segment_clause_checked")
	return nil
}

func TestVerif_C16(t *testing.T) { vfCheck(t, "C16", vfC16Gen, vfC16RunAll) }

var vfC16Counter int

func vfC16RunAll(c vfSerCase, ctx *vfCtx) *vfViolation {
	if v := vfC16Run(c, ctx); v != nil {
		return v
	}
	// the segment clause is independent of the generated index state: run it for every 16th case
	vfC16Counter++
	if vfC16Counter%16 == 1 || ctx.replay {
		vfInflightSpansSegments = false
		return vfC16Segments(&c, ctx)
	}
	return nil
}
