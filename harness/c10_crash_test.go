package comet

// C10 — a crash at any point leaves a directory that reopens to a consistent store.
// Fault enumeration on top of generated histories: the directory is snapshotted at EVERY verif
// hook point of an in-flight flush; each snapshot is expanded into crash images (the snapshot
// itself, every chosen byte-prefix of every not-yet-final segment file, missing files, and
// generated combinations); every image is reopened with fresh templates and checked against
// the durable-set model.

import (
	"fmt"
	"os"
	"path/filepath"
	"regexp"
	"sort"
	"strconv"
	"strings"
	"sync"
	"sync/atomic"
	"testing"
	"time"

	"pgregory.net/rapid"
)

type vfC10Case struct {
	Conf      vfStoreConf    `json:"conf"`
	Completed [][]vfStoreDoc `json:"completed_flushes"` // documents of each completed flush
	InFlight  []vfStoreDoc   `json:"in_flight"`         // documents of the flush that is interrupted
	// combinations of cuts across the four files of the in-flight segment: fraction of the final
	// length (0..1), -1 = file missing, 2 = file complete
	Combos [][4]float64 `json:"combos"`
	// variant: the last flush runs on the BACKGROUND worker and is parked at this hook point while an
	// explicit Flush is issued; if that Flush returns nil the process "dies" at once ("" = variant off)
	BgParkAt string `json:"bg_park_at,omitempty"`
	// variant: a COMPACTION runs over CompThr of Extra+CompThr segments and the directory is snapshotted at
	// every hook point of it. Compaction does not merge (open finding KF-1), so nothing is required of the
	// documents of its INPUT segments; everything else of C10 is: each image opens and searches without
	// error, the documents of the segments that were NOT inputs are found, ids are not reused.
	CompactExtra int `json:"compact_extra,omitempty"`
}

var vfC10ParkPoints = []string{"flush:created:hybrid", "flush:created:vector", "flush:created:metadata", "flush:written", "flush:closed:vector", "flush:closed:hybrid", "flush:registered", "flush:before_drop"}

func vfC10Gen(rt *rapid.T) vfC10Case {
	c := vfC10Case{}
	var g *vfVecGen
	c.Conf, g = vfGenStoreConf(rt)
	c.Conf.FlushThr = 1 << 40
	c.Conf.MemLimit = rapid.SampledFrom([]int64{100000, 100000, 900}).Draw(rt, "c10_memtable_limit")
	n := 0
	explicit := map[uint32]bool{}
	for f := 0; f < rapid.IntRange(0, 3).Draw(rt, "completed_flushes"); f++ {
		var docs []vfStoreDoc
		for j := 0; j < rapid.IntRange(1, 4).Draw(rt, "docs_per_flush"); j++ {
			n++
			docs = append(docs, *vfGenStoreDoc(rt, g, n, explicit))
		}
		c.Completed = append(c.Completed, docs)
	}
	for j := 0; j < rapid.IntRange(1, 5).Draw(rt, "in_flight_docs"); j++ {
		n++
		c.InFlight = append(c.InFlight, *vfGenStoreDoc(rt, g, n, explicit))
	}
	if rapid.IntRange(0, 4).Draw(rt, "compaction_variant") == 0 {
		c.CompactExtra = rapid.IntRange(1, 3).Draw(rt, "compact_extra_segments")
		return c
	}
	if rapid.IntRange(0, 3).Draw(rt, "background_flush_variant") == 0 {
		c.BgParkAt = rapid.SampledFrom(vfC10ParkPoints).Draw(rt, "bg_park_at")
	}
	for k := 0; k < rapid.IntRange(4, 12).Draw(rt, "n_combos"); k++ {
		var cb [4]float64
		for f := 0; f < 4; f++ {
			switch rapid.IntRange(0, 5).Draw(rt, "cut_class") {
			case 0:
				cb[f] = -1
			case 1, 2:
				cb[f] = 2
			case 3:
				cb[f] = 0
			default:
				cb[f] = rapid.Float64Range(0, 1).Draw(rt, "cut")
			}
		}
		c.Combos = append(c.Combos, cb)
	}
	return c
}

type vfDirImage map[string][]byte

func vfReadDirImage(dir string) vfDirImage {
	img := vfDirImage{}
	entries, _ := os.ReadDir(dir)
	for _, e := range entries {
		if e.IsDir() || e.Name() == "LOCK" {
			continue
		}
		data, err := os.ReadFile(filepath.Join(dir, e.Name()))
		if err == nil {
			img[e.Name()] = data
		}
	}
	return img
}

func (img vfDirImage) clone() vfDirImage {
	out := vfDirImage{}
	for k, v := range img {
		out[k] = v
	}
	return out
}

func (img vfDirImage) writeTo(dir string) error {
	if err := os.MkdirAll(dir, 0o755); err != nil {
		return err
	}
	for name, data := range img {
		if err := os.WriteFile(filepath.Join(dir, name), data, 0o644); err != nil {
			return err
		}
	}
	return nil
}

var vfSegFileRe = regexp.MustCompile(`^(hybrid|vector|text|metadata)_(\d+)\.bin\.gz$`)

func vfMaxSegmentID(names []string) uint64 {
	var max uint64
	for _, n := range names {
		if m := vfSegFileRe.FindStringSubmatch(n); m != nil {
			if id, err := strconv.ParseUint(m[2], 10, 64); err == nil && id > max {
				max = id
			}
		}
	}
	return max
}

// vfCheckCrashImage reopens one image and applies the oracle of C10.
// vfDamagedMustBeAbsent is set by C16's segment clause: there the "in-flight" documents are those of a
// segment one of whose files is a strict prefix of what was written (or is missing), and C16 says such a
// segment contributes nothing - "all or none" (C10's reading for an interrupted flush) is not enough.
var vfDamagedMustBeAbsent bool

// vfImageConcurrentSearches > 0: that many goroutines search the reopened image at once before anything else.
var vfImageConcurrentSearches int

func vfOnes(dim int) []float32 {
	v := make([]float32, dim)
	for i := range v {
		v[i] = 1
	}
	return v
}

func vfCheckCrashImage(root string, seq int, img vfDirImage, conf *vfStoreConf, durable, inflight map[uint32]*vfStoreDoc, everAdded map[uint32]bool, what string) *vfViolation {
	dir := filepath.Join(root, fmt.Sprintf("img%d", seq))
	if err := img.writeTo(dir); err != nil {
		return vfFail("writing the image: %v", err)
	}
	defer os.RemoveAll(dir)
	var names []string
	for n := range img {
		names = append(names, n)
	}
	sort.Strings(names)
	st, err := vfOpenStore(dir, conf)
	if err != nil {
		return vfFail("crash image [%s] (files %v): Open fails: %v", what, names, err)
	}
	closed := false
	defer func() {
		if !closed {
			st.Close()
		}
	}()
	if vfImageConcurrentSearches > 0 {
		// the FIRST searches after the reopen arrive together: every segment - loadable or not - is
		// looked at by several searches at once, and each of them still returns without an error
		// (a panic on one of the library's goroutines ends the process: reported through the journal)
		var wg sync.WaitGroup
		errs := make([]error, vfImageConcurrentSearches)
		start := make(chan struct{})
		for g := 0; g < vfImageConcurrentSearches; g++ {
			wg.Add(1)
			go func(g int) {
				defer wg.Done()
				defer func() {
					if p := recover(); p != nil {
						errs[g] = fmt.Errorf("panic: %v", p)
					}
				}()
				<-start
				for rep := 0; rep < 3 && errs[g] == nil; rep++ {
					s := st.NewSearch().WithK(vfBigK)
					switch {
					case conf.VecKind != "none" && (g%2 == 0 || !conf.HasText):
						s = s.WithVector(vfOnes(conf.Dim)).WithNProbes(1000)
					case conf.HasText:
						s = s.WithText("common")
					default:
						s = s.WithMetadata(Gte("n", 0))
					}
					_, errs[g] = s.Execute()
				}
			}(g)
		}
		close(start)
		wg.Wait()
		for g, e := range errs {
			if e != nil {
				return vfFail("store image [%s] (files %v): concurrent first search %d of %d fails: %v", what, names, g, vfImageConcurrentSearches, e)
			}
		}
	}
	if v := vfCheckDurable(st, conf, durable, everAdded, "crash image ["+what+"]"); v != nil {
		v.Msg += fmt.Sprintf(" (files %v)", names)
		return v
	}
	// in-flight documents: through all of their modalities or through none
	ids := make([]uint32, 0, len(inflight))
	for id := range inflight {
		ids = append(ids, id)
	}
	sort.Slice(ids, func(i, j int) bool { return ids[i] < ids[j] })
	for _, id := range ids {
		bv, bt, bm, all, err := vfStoreFind(st, conf, id, inflight[id])
		if err != nil {
			return vfFail("crash image [%s]: a search fails: %v", what, err)
		}
		want := []bool{}
		if conf.VecKind != "none" {
			want = append(want, bv)
		}
		if conf.HasText {
			want = append(want, bt)
		}
		if conf.HasMeta {
			want = append(want, bm)
		}
		for _, w := range want[1:] {
			if w != want[0] {
				return vfFail("crash image [%s] (files %v): document %d of the interrupted flush is found PARTIALLY: vector=%v text=%v metadata=%v — a damaged segment was loaded in part", what, names, id, bv, bt, bm)
			}
		}
		for x := range all {
			if !everAdded[x] {
				return vfFail("crash image [%s]: a search returned id %d, which was never added", what, x)
			}
		}
	}
	// the interrupted segment is loaded as a whole or not at all: all of its documents or none
	foundInflight := 0
	for _, id := range ids {
		d := inflight[id]
		bv, bt, bm, _, _ := vfStoreFind(st, conf, id, d)
		// (vfStoreFind reports "true" for a modality the document does not have: nothing to find there)
		if d.hasVec(conf) && bv || d.hasText(conf) && bt || d.hasMeta(conf) && bm {
			foundInflight++
		}
	}
	if vfDamagedMustBeAbsent && !vfInflightSpansSegments && foundInflight != 0 {
		return vfFail("store image [%s] (files %v): the segment with the truncated / empty / missing component file contributes %d of its %d documents to search results", what, names, foundInflight, len(ids))
	}
	if foundInflight != 0 && foundInflight != len(ids) && !vfInflightSpansSegments {
		return vfFail("crash image [%s] (files %v): %d of the %d documents of the interrupted flush are found — a damaged segment contributed part of its content", what, names, foundInflight, len(ids))
	}
	// a following Add + Flush must use a segment id larger than every id in the image's file names
	maxBefore := vfMaxSegmentID(names)
	probe := &vfStoreDoc{ID: 1<<30 + 1<<21 + 900000, N: 900000, Vec: make([]float32, conf.Dim), Word: "probe"}
	probe.Vec[0] = 1
	if _, err := vfStoreAdd(st, conf, probe); err != nil {
		return vfFail("crash image [%s]: Add after reopen fails: %v", what, err)
	}
	if err := st.Flush(); err != nil {
		return vfFail("crash image [%s]: Flush after reopen fails: %v", what, err)
	}
	after := vfReadDirImage(dir)
	for name, data := range img {
		now, ok := after[name]
		if !ok && vfProtectedFiles != nil && !vfProtectedFiles[name] {
			continue // a leftover of the interrupted segment was cleaned up: allowed
		}
		if !ok || string(now) != string(data) {
			return vfFail("crash image [%s]: reopen + Add + Flush rewrote or removed the existing file %s (segment id reused?)", what, name)
		}
	}
	for name := range after {
		if _, old := img[name]; old {
			continue
		}
		if m := vfSegFileRe.FindStringSubmatch(name); m != nil {
			id, _ := strconv.ParseUint(m[2], 10, 64)
			if id <= maxBefore {
				return vfFail("crash image [%s]: the Flush after reopen created %s although files with segment id %d already existed (identifier reused)", what, name, maxBefore)
			}
		}
	}
	closed = true
	if err := st.Close(); err != nil {
		return vfFail("crash image [%s]: Close fails: %v", what, err)
	}
	// a second restart: the recovered directory (damaged leftovers + the new segment) opens again,
	// everything durable and the document flushed after the recovery are found, ids keep growing
	st2, err := vfOpenStore(dir, conf)
	if err != nil {
		return vfFail("crash image [%s]: the SECOND reopen (after recovery, Add, Flush, Close) fails: %v", what, err)
	}
	defer st2.Close()
	durable2 := map[uint32]*vfStoreDoc{probe.ID: probe}
	for id, d := range durable {
		durable2[id] = d
	}
	if v := vfCheckDurable(st2, conf, durable2, everAdded, "second reopen of crash image ["+what+"]"); v != nil {
		return v
	}
	var names2 []string
	for n := range after {
		names2 = append(names2, n)
	}
	max2 := vfMaxSegmentID(names2)
	probe2 := &vfStoreDoc{ID: 1<<30 + 1<<21 + 900001, N: 900001, Vec: make([]float32, conf.Dim), Word: "probe"}
	probe2.Vec[0] = 1
	everAdded[probe2.ID] = true
	if _, err := vfStoreAdd(st2, conf, probe2); err != nil {
		return vfFail("crash image [%s]: Add after the second reopen fails: %v", what, err)
	}
	if err := st2.Flush(); err != nil {
		return vfFail("crash image [%s]: Flush after the second reopen fails: %v", what, err)
	}
	for name := range vfReadDirImage(dir) {
		if _, old := after[name]; old {
			continue
		}
		if m := vfSegFileRe.FindStringSubmatch(name); m != nil {
			id, _ := strconv.ParseUint(m[2], 10, 64)
			if id <= max2 {
				return vfFail("crash image [%s]: after the second reopen a Flush created %s although files with segment id %d already existed (identifier reused)", what, name, max2)
			}
		}
	}
	return nil
}

// set per case: the files of COMPLETED segments (present before the interrupted flush began). Only
// these must survive a recovery untouched; leftovers of an incomplete segment may be cleaned up
// (removed), but never rewritten. nil = every file of the image is protected.
var vfProtectedFiles map[string]bool

// set per case: the in-flight documents were spread over more than one memtable (several segments
// are written by the interrupted flush, so "some but not all" is legitimate at segment granularity)
var vfInflightSpansSegments bool

func vfC10Run(c vfC10Case, ctx *vfCtx) *vfViolation {
	root, err := os.MkdirTemp(vfEnv("VERIF_SCRATCH"), "c10-")
	if err != nil {
		return vfFail("mkdir: %v", err)
	}
	defer os.RemoveAll(root)
	if c.CompactExtra > 0 {
		return vfC10CompactionVariant(&c, ctx, root)
	}
	dir := filepath.Join(root, "live")
	conf := c.Conf
	st, err := vfOpenStore(dir, &conf)
	if err != nil {
		return vfFail("Open: %v", err)
	}
	stClosed := false
	defer func() {
		vfInstallHook(nil)
		if !stClosed {
			st.Close()
		}
	}()
	durable := map[uint32]*vfStoreDoc{}
	everAdded := map[uint32]bool{}
	addAll := func(docs []vfStoreDoc, into map[uint32]*vfStoreDoc) *vfViolation {
		for j := range docs {
			d := &docs[j]
			if len(d.Vec) != conf.Dim || d.ID != 0 && everAdded[d.ID] {
				continue
			}
			id, err := vfStoreAdd(st, &conf, d)
			if err != nil {
				return vfFail("add failed: %v", err)
			}
			everAdded[id] = true
			into[id] = d
		}
		return nil
	}
	for _, docs := range c.Completed {
		if v := addAll(docs, durable); v != nil {
			return v
		}
		if err := st.Flush(); err != nil {
			return vfFail("Flush: %v", err)
		}
	}
	inflight := map[uint32]*vfStoreDoc{}
	if v := addAll(c.InFlight, inflight); v != nil {
		return v
	}
	everAdded[1<<30+1<<21+900000] = true // the probe document of the per-image oracle
	vfInflightSpansSegments = vfStoreMemtableCount(st) > 1

	if c.BgParkAt != "" {
		stClosed = true
		return vfC10BackgroundVariant(&c, ctx, st, root, dir, &conf, durable, inflight, everAdded)
	}

	// the interrupted flush: snapshot at every hook point
	type snap struct {
		point string
		img   vfDirImage
	}
	var snaps []snap
	vfInstallHook(func(name string, args ...any) {
		if strings.HasPrefix(name, "flush:") || strings.HasPrefix(name, "delete:") {
			snaps = append(snaps, snap{name, vfReadDirImage(dir)})
		}
	})
	ferr := st.Flush()
	vfInstallHook(nil)
	if ferr != nil {
		return vfFail("the flush that is being interrupted failed on its own: %v", ferr)
	}
	final := vfReadDirImage(dir)
	snaps = append(snaps, snap{"flush:returned", final})
	stClosed = true
	if err := st.Close(); err != nil {
		return vfFail("Close: %v", err)
	}
	ctx.Count("points_enumerated", int64(len(snaps)))
	ctx.Class(fmt.Sprintf("completed_flushes=%d", len(c.Completed)))

	// files of the in-flight segment(s): those that did not exist before the flush started
	var pre vfDirImage
	if len(snaps) > 0 {
		pre = snaps[0].img
	}
	var newFiles []string
	for name := range final {
		if _, ok := pre[name]; !ok || len(pre[name]) != len(final[name]) {
			if vfSegFileRe.MatchString(name) {
				newFiles = append(newFiles, name)
			}
		}
	}
	sort.Strings(newFiles)
	vfProtectedFiles = map[string]bool{}
	for name := range pre {
		vfProtectedFiles[name] = true
	}
	for _, name := range newFiles {
		delete(vfProtectedFiles, name)
	}
	defer func() { vfProtectedFiles = nil }()

	seq := 0
	images := int64(0)
	check := func(img vfDirImage, what string) *vfViolation {
		seq++
		images++
		return vfCheckCrashImage(root, seq, img, &conf, durable, inflight, everAdded, what)
	}
	// 1. every snapshot as it is
	for _, s := range snaps {
		if v := check(s.img, "as found at "+s.point); v != nil {
			return v
		}
	}
	// 2. every new file cut to chosen prefixes / removed, on top of the final state and of the state
	//    in which all new files exist (a superset of what an interrupted writer can leave behind)
	cutPoints := func(n int) []int {
		set := map[int]bool{0: true}
		limit := 96
		if ctx.Thorough() {
			limit = 2048
		}
		if n <= limit {
			for i := 0; i < n; i++ {
				set[i] = true
			}
		} else {
			for i := 0; i <= 12 && i < n; i++ { // gzip header and the first block header
				set[i] = true
			}
			for i := n - 10; i < n; i++ { // gzip trailer (crc32 + size)
				if i >= 0 {
					set[i] = true
				}
			}
			strata := 24
			if ctx.Thorough() {
				strata = 64
			}
			for i := 0; i < strata; i++ {
				set[i*n/strata] = true
			}
		}
		out := make([]int, 0, len(set))
		for k := range set {
			out = append(out, k)
		}
		sort.Ints(out)
		return out
	}
	partialSeen := false
	for _, name := range newFiles {
		data := final[name]
		for _, n := range cutPoints(len(data)) {
			img := final.clone()
			img[name] = data[:n]
			// a strict prefix: the segment has a truncated component file and is "ignored as a whole"
			vfDamagedMustBeAbsent = n < len(data)
			v := check(img, fmt.Sprintf("%s cut to %d of %d bytes, everything else complete", name, n, len(data)))
			vfDamagedMustBeAbsent = false
			if v != nil {
				return v
			}
			partialSeen = true
		}
		img := final.clone()
		delete(img, name)
		vfDamagedMustBeAbsent = true
		v := check(img, name+" missing, everything else complete")
		vfDamagedMustBeAbsent = false
		if v != nil {
			return v
		}
	}
	// 3. generated combinations across the files of the in-flight segment
	for _, cb := range c.Combos {
		img := final.clone()
		desc := ""
		damaged := false
		for fi, name := range newFiles {
			f := cb[fi%4]
			switch {
			case f < 0:
				delete(img, name)
				desc += name + ":missing "
				damaged = true
			case f > 1:
				desc += name + ":complete "
			default:
				n := int(f * float64(len(final[name])))
				img[name] = final[name][:n]
				desc += fmt.Sprintf("%s:%d/%d ", name, n, len(final[name]))
				damaged = damaged || n < len(final[name])
			}
		}
		vfDamagedMustBeAbsent = damaged
		v := check(img, "combination "+desc)
		vfDamagedMustBeAbsent = false
		if v != nil {
			return v
		}
	}
	ctx.Count("images_checked", images)
	if partialSeen && len(c.Completed) >= 1 {
		ctx.NonTrivial()
	}
	return nil
}

// vfC10BackgroundVariant: the flush of the last documents runs on the background worker and is parked
// half-way; meanwhile the application calls Flush. Whenever that call returns nil, everything added
// before it is durable - so the directory as it is at that instant must reopen with all of it.
func vfC10BackgroundVariant(c *vfC10Case, ctx *vfCtx, st *PersistentHybridIndex, root, dir string, conf *vfStoreConf, durable, inflight map[uint32]*vfStoreDoc, everAdded map[uint32]bool) *vfViolation {
	defer vfInstallHook(nil)
	valid := false
	for _, p := range vfC10ParkPoints {
		valid = valid || p == c.BgParkAt
	}
	if !valid || len(inflight) == 0 {
		st.Close()
		return nil
	}
	// points that only exist when the store has that modality
	if strings.HasSuffix(c.BgParkAt, ":vector") && conf.VecKind == "none" || strings.HasSuffix(c.BgParkAt, ":metadata") && !conf.HasMeta {
		c.BgParkAt = "flush:written"
	}
	// files of completed segments (present now) are protected; what the parked flush leaves half-written
	// may be cleaned up by a recovery
	vfProtectedFiles = map[string]bool{}
	for name := range vfReadDirImage(dir) {
		vfProtectedFiles[name] = true
	}
	defer func() { vfProtectedFiles = nil }()
	parked, release := make(chan struct{}), make(chan struct{})
	var once atomic.Bool // only the FIRST arrival parks; later arrivals pass (sync.Once would block them until the first returns)
	vfInstallHook(func(name string, args ...any) {
		if name == c.BgParkAt {
			if once.CompareAndSwap(false, true) {
				close(parked)
				<-release
			}
		}
	})
	vfStoreRotate(st)
	vfStoreKickFlushWorker(st)
	select {
	case <-parked:
	case <-time.After(60 * time.Second):
		close(release)
		st.Close()
		return vfFail("the background flush worker did not reach %s within 60 s of being woken with a frozen memtable pending", c.BgParkAt)
	}
	all := map[uint32]*vfStoreDoc{}
	for id, d := range durable {
		all[id] = d
	}
	for id, d := range inflight {
		all[id] = d
	}
	flushDone := make(chan error, 1)
	go func() { flushDone <- st.Flush() }()
	var v *vfViolation
	returnedEarly := false
	select {
	case err := <-flushDone:
		returnedEarly = true
		flushDone <- err
		if err == nil {
			img := vfReadDirImage(dir)
			v = vfCheckCrashImage(root, 1, img, conf, all, map[uint32]*vfStoreDoc{}, everAdded, "crash right after an explicit Flush returned nil while the background flush of the same memtable was parked at "+c.BgParkAt)
			ctx.Class("explicit_flush_returned_while_background_flush_was_parked")
		}
	case <-time.After(250 * time.Millisecond):
		ctx.Class("explicit_flush_waited_for_the_parked_background_flush")
	}
	close(release)
	ferr := <-flushDone
	_ = returnedEarly
	if v != nil {
		st.Close()
		return v
	}
	if ferr != nil {
		st.Close()
		return vfFail("an explicit Flush overlapping a background flush failed: %v", ferr)
	}
	// the explicit Flush has returned nil: crash now
	img := vfReadDirImage(dir)
	if v := vfCheckCrashImage(root, 2, img, conf, all, map[uint32]*vfStoreDoc{}, everAdded, "crash right after an explicit Flush that overlapped a background flush (parked at "+c.BgParkAt+") returned nil"); v != nil {
		st.Close()
		return v
	}
	if err := st.Close(); err != nil {
		return vfFail("Close: %v", err)
	}
	ctx.Count("images_checked", 2)
	ctx.Count("points_enumerated", 1)
	ctx.Class("background_flush_variant")
	ctx.NonTrivial()
	return nil
}

func vfC10CompactionVariant(c *vfC10Case, ctx *vfCtx, root string) *vfViolation {
	defer vfInstallHook(nil)
	dir := filepath.Join(root, "live")
	conf := c.Conf
	conf.MemLimit, conf.FlushThr = 1<<30, 1<<40
	if conf.CompThr < 2 || conf.CompThr > 5 || c.CompactExtra > 4 {
		return nil
	}
	st, err := vfOpenStore(dir, &conf)
	if err != nil {
		return vfFail("Open: %v", err)
	}
	closed := false
	defer func() {
		if !closed {
			st.Close()
		}
	}()
	everAdded := map[uint32]bool{}
	everAdded[1<<30+1<<21+900000] = true
	docsOfSegment := map[uint64]map[uint32]*vfStoreDoc{}
	nSeg := conf.CompThr + c.CompactExtra
	for g := 0; g < nSeg; g++ {
		before := map[uint64]bool{}
		for _, id := range vfStoreSegmentIDs(st) {
			before[id] = true
		}
		grp := map[uint32]*vfStoreDoc{}
		for j := 0; j < 2; j++ {
			n := g*2 + j + 1
			d := &vfStoreDoc{ID: uint32(1<<30 + n), N: n, Vec: make([]float32, conf.Dim), Word: "fox"}
			d.Vec[0], d.Vec[len(d.Vec)-1] = float32(n), 1
			if _, err := vfStoreAdd(st, &conf, d); err != nil {
				return vfFail("add: %v", err)
			}
			everAdded[d.ID] = true
			grp[d.ID] = d
		}
		if err := st.Flush(); err != nil {
			return vfFail("Flush: %v", err)
		}
		for _, id := range vfStoreSegmentIDs(st) {
			if !before[id] {
				docsOfSegment[id] = grp
			}
		}
	}
	if len(docsOfSegment) != nSeg {
		return vfFail("%d flushes of one memtable each produced %d segments", nSeg, len(docsOfSegment))
	}
	pre := vfReadDirImage(dir)
	inputs := map[uint64]bool{}
	type snap struct {
		point string
		img   vfDirImage
	}
	var snaps []snap
	vfInstallHook(func(name string, args ...any) {
		if name == "compact:before_delete" && len(args) > 0 {
			if id, ok := args[0].(uint64); ok {
				inputs[id] = true
			}
		}
		if strings.HasPrefix(name, "compact:") || strings.HasPrefix(name, "delete:") {
			snaps = append(snaps, snap{name, vfReadDirImage(dir)})
		}
	})
	// in every second case a background flush of two more documents is parked half-way (segment files
	// created and written, segment not yet registered) while the compaction runs
	var lateDocs map[uint32]*vfStoreDoc
	var parked, release chan struct{}
	if c.CompactExtra%2 == 1 {
		lateDocs = map[uint32]*vfStoreDoc{}
		for j := 0; j < 2; j++ {
			n := 1000 + j
			d := &vfStoreDoc{ID: uint32(1<<30 + n), N: n, Vec: make([]float32, conf.Dim), Word: "zeta"}
			d.Vec[0], d.Vec[len(d.Vec)-1] = float32(n), 2
			if _, err := vfStoreAdd(st, &conf, d); err != nil {
				return vfFail("add: %v", err)
			}
			everAdded[d.ID] = true
			lateDocs[d.ID] = d
		}
		parked, release = make(chan struct{}), make(chan struct{})
		var first atomic.Bool
		inner := func(name string, args ...any) {
			if name == "flush:written" && first.CompareAndSwap(false, true) {
				close(parked)
				<-release
			}
		}
		prevHook := func(name string, args ...any) {
			if name == "compact:before_delete" && len(args) > 0 {
				if id, ok := args[0].(uint64); ok {
					inputs[id] = true
				}
			}
			if strings.HasPrefix(name, "compact:") || strings.HasPrefix(name, "delete:") {
				snaps = append(snaps, snap{name, vfReadDirImage(dir)})
			}
		}
		vfInstallHook(func(name string, args ...any) {
			inner(name, args...)
			prevHook(name, args...)
		})
		vfStoreRotate(st)
		vfStoreKickFlushWorker(st)
		select {
		case <-parked:
		case <-time.After(60 * time.Second):
			close(release)
			return vfFail("the background flush worker did not reach flush:written within 60 s")
		}
		ctx.Class("compaction_while_a_background_flush_is_parked_at_flush:written")
	}
	cerr := vfStoreCompactNow(st)
	if release != nil {
		close(release)
		// the worker completes its flush first (an explicit Flush racing with it would write the same
		// memtable a second time and hide a loss); the explicit Flush afterwards has nothing left to write
		if !vfWaitUntil(func() bool { return vfStoreFrozenCount(st) == 0 }, 30*time.Second) {
			return vfFail("the parked background flush did not finish within 30 s of being released")
		}
		if err := st.Flush(); err != nil {
			return vfFail("Flush after the compaction: %v", err)
		}
	}
	vfInstallHook(nil)
	if cerr != nil {
		return vfFail("compaction of %d of %d segments failed: %v", conf.CompThr, nSeg, cerr)
	}
	if len(inputs) == 0 {
		return vfFail("a compaction over %d segments (threshold %d) deleted no input segment", nSeg, conf.CompThr)
	}
	survivors := map[uint32]*vfStoreDoc{}
	vfProtectedFiles = map[string]bool{}
	defer func() { vfProtectedFiles = nil }()
	for id, grp := range docsOfSegment {
		if inputs[id] {
			continue
		}
		for did, d := range grp {
			survivors[did] = d
		}
		for name := range pre {
			if m := vfSegFileRe.FindStringSubmatch(name); m != nil {
				if sid, _ := strconv.ParseUint(m[2], 10, 64); sid == id {
					vfProtectedFiles[name] = true
				}
			}
		}
	}
	if len(survivors) == 0 {
		return vfFail("a compaction with threshold %d consumed all %d segments", conf.CompThr, nSeg)
	}
	// the documents whose flush overlapped the compaction are acknowledged (Flush returned nil afterwards)
	for id, d := range lateDocs {
		survivors[id] = d
	}
	// the running store still serves the documents of the segments it did not compact
	if v := vfCheckDurable(st, &conf, survivors, everAdded, "after a compaction that did not touch their segments"); v != nil {
		return v
	}
	snaps = append(snaps, snap{"compact:returned", vfReadDirImage(dir)})
	closed = true
	if err := st.Close(); err != nil {
		return vfFail("Close: %v", err)
	}
	early := map[uint32]*vfStoreDoc{}
	for id, d := range survivors {
		if lateDocs[id] == nil {
			early[id] = d
		}
	}
	for i, s := range snaps {
		need := early
		if s.point == "compact:returned" {
			need = survivors
		}
		if v := vfCheckCrashImage(root, i+1, s.img, &conf, need, map[uint32]*vfStoreDoc{}, everAdded, "compaction of "+fmt.Sprint(conf.CompThr)+" of "+fmt.Sprint(nSeg)+" segments, as found at "+s.point); v != nil {
			return v
		}
	}
	ctx.Count("points_enumerated", int64(len(snaps)))
	ctx.Count("images_checked", int64(len(snaps)))
	ctx.Class("compaction_variant")
	ctx.NonTrivial()
	return nil
}

func TestVerif_C10(t *testing.T) { vfCheck(t, "C10", vfC10Gen, vfC10Run) }
