package comet

// C17 — a storage directory is owned by at most one open store at a time.
// Oracle: model of lock ownership over generated Open / Close / failed-Open / use-after-close
// histories, racing goroutines, and a second process.

import (
	"bufio"
	"bytes"
	"fmt"
	"io"
	"os"
	"os/exec"
	"path/filepath"
	"runtime"
	"sort"
	"strings"
	"sync"
	"sync/atomic"
	"syscall"
	"testing"
	"time"

	"pgregory.net/rapid"
)

type vfLOp struct {
	Op     string `json:"op"` // open | close | use | add_flush | open_file_base | open_unlistable | race_open | race_close | other_process
	Slot   int    `json:"slot"`
	Method string `json:"method,omitempty"`
	G      int    `json:"g,omitempty"`
}

type vfC17Case struct {
	Ops []vfLOp `json:"ops"`
}

var vfUseMethods = []string{"add", "add_with_id", "remove", "search", "train", "flush", "close", "trigger_compaction", "getters", "write_to", "read_from", "add_refused", "add_with_id_refused"}

func vfC17Gen(rt *rapid.T) vfC17Case {
	opGen := rapid.Custom(func(rt *rapid.T) vfLOp {
		slot := rapid.IntRange(0, 2).Draw(rt, "slot")
		switch w := rapid.IntRange(0, 99).Draw(rt, "opclass"); {
		case w < 22:
			return vfLOp{Op: "open", Slot: -3}
		case w < 40:
			return vfLOp{Op: "close", Slot: -1}
		case w < 50:
			return vfLOp{Op: "close", Slot: -2}
		case w < 64:
			return vfLOp{Op: "use", Slot: -2, Method: rapid.SampledFrom(vfUseMethods).Draw(rt, "method")}
		case w < 68:
			return vfLOp{Op: "use", Slot: -1, Method: rapid.SampledFrom(vfUseMethods).Draw(rt, "method")}
		case w < 76:
			return vfLOp{Op: "add_flush", Slot: -1}
		case w < 80:
			return vfLOp{Op: "open_file_base"}
		case w < 86:
			return vfLOp{Op: "open_unlistable"}
		case w < 91:
			return vfLOp{Op: "race_open", G: rapid.IntRange(2, 8).Draw(rt, "g")}
		case w < 98:
			if rapid.Bool().Draw(rt, "close_vs_open") {
				return vfLOp{Op: "race_close_open", Slot: -1, G: rapid.IntRange(1, 7).Draw(rt, "g"), Method: rapid.SampledFrom([]string{"", "late_writers", "late_writers"}).Draw(rt, "late_writers")}
			}
			return vfLOp{Op: "race_close", Slot: -1, G: rapid.IntRange(2, 8).Draw(rt, "g")}
		default:
			return vfLOp{Op: "other_process", Slot: slot}
		}
	})
	return vfC17Case{Ops: vfListOf(rt, "ops", opGen, 3, 40)}
}

func vfDirSnapshot(dir string) string {
	var lines []string
	entries, err := os.ReadDir(dir)
	if err != nil {
		return "unreadable: " + err.Error()
	}
	for _, e := range entries {
		data, _ := os.ReadFile(filepath.Join(dir, e.Name()))
		lines = append(lines, fmt.Sprintf("%s:%d:%s", e.Name(), len(data), vfHash(data)))
	}
	sort.Strings(lines)
	return strings.Join(lines, "\n")
}

func vfLockExists(dir string) bool {
	_, err := os.Stat(filepath.Join(dir, "LOCK"))
	return err == nil
}

// memtable limit 1: every Add freezes a memtable, so a Close always has pending flush work
var vfLockConf = vfStoreConf{VecKind: "flat", Metric: string(Euclidean), Dim: 2, HasText: true, HasMeta: true, MemLimit: 1, FlushThr: 1 << 40, CompThr: 4}

// vfUseClosed calls one public method on a handle; returns the error (nil for methods that return nothing).
func vfUseHandle(st *PersistentHybridIndex, method string, n int) (err error, returnsError bool) {
	switch method {
	case "add":
		_, err = st.Add([]float32{1, float32(n)}, "tok use", map[string]interface{}{"n": n})
		return err, true
	case "add_with_id":
		return st.AddWithID(uint32(1<<30+n), []float32{2, float32(n)}, "tok use", map[string]interface{}{"n": n}), true
	case "add_refused":
		// refused on an open handle as well (wrong dimension): it must not leave anything behind that a
		// later Close would wait for
		_, err = st.Add([]float32{1, 2, 3, 4, 5}, "tok use", map[string]interface{}{"n": n})
		return err, true
	case "add_with_id_refused":
		return st.AddWithID(uint32(1<<30+n), []float32{1}, "tok use", map[string]interface{}{"bad": struct{}{}}), true
	case "remove":
		// Remove of an unknown id errs on an open store too; only the closed case is asserted
		return st.Remove(uint32(1<<30 + n)), true
	case "search":
		_, err = st.NewSearch().WithVector([]float32{1, 1}).WithK(3).Execute()
		return err, true
	case "train":
		return st.Train([][]float32{{1, 2}, {3, 4}}), true
	case "flush":
		return st.Flush(), true
	case "close":
		return st.Close(), true
	case "trigger_compaction":
		st.TriggerCompaction()
		return nil, false
	case "getters":
		_ = st.VectorIndex()
		_ = st.TextIndex()
		_ = st.MetadataIndex()
		return nil, false
	case "write_to":
		return st.WriteTo(nil, nil, nil, nil), true
	case "read_from":
		_, err = st.ReadFrom(strings.NewReader(""))
		return err, true
	}
	return nil, false
}

// vfAsNobody runs f on a locked OS thread whose filesystem uid/gid is 65534 (root ignores
// permission bits, so an unlistable directory needs another identity). ok=false when the
// identity cannot be dropped (the clause is then skipped and counted).
func vfAsNobody(f func()) (ok bool) {
	done := make(chan bool)
	go func() {
		runtime.LockOSThread()
		defer runtime.UnlockOSThread()
		if os.Geteuid() != 0 {
			f() // already unprivileged: plain permission bits work
			done <- true
			return
		}
		syscall.Setfsgid(65534)
		syscall.Setfsuid(65534)
		// verify that the change took effect (Setfsuid returns the previous value, not an error)
		probe := syscall.Setfsuid(65534)
		_ = probe
		f()
		syscall.Setfsuid(0)
		syscall.Setfsgid(0)
		done <- true
	}()
	return <-done
}

func vfC17Run(c vfC17Case, ctx *vfCtx) *vfViolation {
	ctx.HistoryLen("history", len(c.Ops))
	root, err := os.MkdirTemp(vfEnv("VERIF_SCRATCH"), "c17-")
	if err != nil {
		return vfFail("mkdir: %v", err)
	}
	os.Chmod(root, 0o755)
	defer os.RemoveAll(root)
	dir := filepath.Join(root, "store")
	slots := make([]*PersistentHybridIndex, 3)
	isOpen := make([]bool, 3)
	owner := -1
	defer func() {
		for i, s := range slots {
			if s != nil && isOpen[i] {
				s.Close()
			}
		}
	}()
	counter := 0
	refusedWhileOwned, reopenedAfterClose, raced := false, false, false
	for i, op := range c.Ops {
		counter++
		// symbolic slots are resolved against the current state: -1 = the owning handle,
		// -2 = a handle that has been closed, -3 = a slot that is not open
		switch op.Slot {
		case -1:
			if owner < 0 {
				continue
			}
			op.Slot = owner
		case -2:
			found := -1
			for j := range slots {
				if slots[(j+i)%3] != nil && !isOpen[(j+i)%3] {
					found = (j + i) % 3
					break
				}
			}
			if found < 0 {
				continue
			}
			op.Slot = found
		case -3:
			found := -1
			for j := range slots {
				if !isOpen[(j+i)%3] {
					found = (j + i) % 3
					break
				}
			}
			if found < 0 {
				continue
			}
			op.Slot = found
		}
		if op.Slot < 0 || op.Slot > 2 {
			continue
		}
		switch op.Op {
		case "open":
			if isOpen[op.Slot] {
				continue
			}
			before := ""
			if owner >= 0 {
				before = vfDirSnapshot(dir)
			}
			st, err := vfOpenStore(dir, &vfLockConf)
			if owner >= 0 {
				if err == nil {
					st.Close()
					return vfFail("op %d: a second Open of the directory succeeded while handle %d still owns it", i, owner)
				}
				if after := vfDirSnapshot(dir); after != before {
					return vfFail("op %d: the refused Open modified the directory:\n%s", i, vfFirstDiff(before, after))
				}
				refusedWhileOwned = true
				ctx.Class("open_refused_while_owned")
				continue
			}
			if err != nil {
				return vfFail("op %d: Open failed although nobody owns the directory (LOCK present: %v): %v", i, vfLockExists(dir), err)
			}
			if !vfLockExists(dir) {
				st.Close()
				return vfFail("op %d: Open succeeded but there is no LOCK file", i)
			}
			slots[op.Slot], isOpen[op.Slot], owner = st, true, op.Slot
		case "close":
			st := slots[op.Slot]
			if st == nil {
				continue
			}
			if isOpen[op.Slot] {
				if err := st.Close(); err != nil {
					return vfFail("op %d: Close of the owning handle failed: %v", i, err)
				}
				isOpen[op.Slot], owner = false, -1
				if vfLockExists(dir) {
					return vfFail("op %d: LOCK is still present after a successful Close", i)
				}
				// ownership is released: the next open must succeed (checked by the next "open"; probe now as well)
				probe, err := vfOpenStore(dir, &vfLockConf)
				if err != nil {
					return vfFail("op %d: Open right after a successful Close failed: %v", i, err)
				}
				if err := probe.Close(); err != nil {
					return vfFail("op %d: Close of the probe handle failed: %v", i, err)
				}
				reopenedAfterClose = true
			} else {
				// second Close: an error, and no effect - in particular a new owner's LOCK stays
				before := vfDirSnapshot(dir)
				if err := st.Close(); err == nil {
					return vfFail("op %d: a second Close returned nil", i)
				}
				if after := vfDirSnapshot(dir); after != before {
					return vfFail("op %d: a second Close of an old handle changed the directory (owner now: %d):\n%s", i, owner, vfFirstDiff(before, after))
				}
				if owner >= 0 && !vfLockExists(dir) {
					return vfFail("op %d: a second Close of an old handle removed the LOCK of the current owner %d", i, owner)
				}
				ctx.Class("second_close")
			}
		case "use":
			st := slots[op.Slot]
			if st == nil {
				continue
			}
			if isOpen[op.Slot] {
				if op.Method == "close" || op.Method == "trigger_compaction" {
					// closing is the "close" op's business; a compaction triggered on the OWNING handle
					// rewrites the directory asynchronously (and is KF-1), which would be blamed on
					// whatever step comes next
					continue
				}
				vfUseHandle(st, op.Method, counter) // on an open handle: only "no panic" (vfSafe)
				continue
			}
			before := vfDirSnapshot(dir)
			// "fails cleanly": it returns (twice in a row, too) - a call that blocks for good is not clean
			type outcome struct {
				err     error
				returns bool
				p       interface{}
			}
			doneCh := make(chan outcome, 1)
			go func() {
				var o outcome
				defer func() {
					o.p = recover()
					doneCh <- o
				}()
				vfUseHandle(st, op.Method, counter)
				o.err, o.returns = vfUseHandle(st, op.Method, counter)
			}()
			var err error
			var returns bool
			select {
			case o := <-doneCh:
				if o.p != nil {
					return vfFail("op %d: %s on a CLOSED handle panics: %v", i, op.Method, o.p)
				}
				err, returns = o.err, o.returns
			case <-time.After(10 * time.Second):
				return vfFail("op %d: %s called twice on a CLOSED handle does not return (blocked for 10 s)", i, op.Method)
			}
			if returns && err == nil {
				return vfFail("op %d: %s on a CLOSED handle returned nil", i, op.Method)
			}
			if after := vfDirSnapshot(dir); after != before {
				return vfFail("op %d: %s on a closed handle touched the directory:\n%s", i, op.Method, vfFirstDiff(before, after))
			}
			ctx.Class("use_after_close=" + op.Method)
			if op.Method == "train" {
				// "fails cleanly" for Train also means: the refused call has not touched the (shared,
				// caller-visible) template either. A flat template has nothing to train, so this is
				// looked at on a store of its own with an IVF template.
				if v := vfC17RefusedTrainLeavesTemplate(i); v != nil {
					return v
				}
				ctx.Class("refused_train_leaves_the_template_alone")
			}
		case "add_flush":
			st := slots[op.Slot]
			if st == nil || !isOpen[op.Slot] {
				continue
			}
			if _, err := st.Add([]float32{float32(counter), 1}, fmt.Sprintf("tok%d common", counter), map[string]interface{}{"n": counter}); err != nil {
				return vfFail("op %d: Add on the owning handle failed: %v", i, err)
			}
			if err := st.Flush(); err != nil {
				return vfFail("op %d: Flush on the owning handle failed: %v", i, err)
			}
		case "open_file_base":
			f := filepath.Join(root, fmt.Sprintf("plainfile%d", i))
			os.WriteFile(f, []byte("x"), 0o644)
			st, err := vfOpenStore(f, &vfLockConf)
			if err == nil {
				st.Close()
				return vfFail("op %d: Open on a regular file succeeded", i)
			}
			if data, _ := os.ReadFile(f); string(data) != "x" {
				return vfFail("op %d: the failed Open modified the file it was pointed at", i)
			}
			ctx.Class("failed_open_base_is_file")
		case "open_unlistable":
			// a directory in which files can be created but which cannot be listed
			d := filepath.Join(root, fmt.Sprintf("unlistable%d", i))
			os.Mkdir(d, 0o755)
			os.Chmod(d, 0o333)
			var st *PersistentHybridIndex
			var oerr error
			vfAsNobody(func() { st, oerr = vfOpenStore(d, &vfLockConf) })
			os.Chmod(d, 0o755)
			if oerr == nil {
				// permission bits did not bite (no way to drop privileges here): skipped, counted
				st.Close()
				ctx.Class("unlistable_clause_skipped(cannot drop privileges)")
				continue
			}
			if vfLockExists(d) {
				return vfFail("op %d: an Open that failed (%v) left its LOCK file behind", i, oerr)
			}
			// and the directory is usable afterwards
			st2, err := vfOpenStore(d, &vfLockConf)
			if err != nil {
				return vfFail("op %d: after a failed Open the directory cannot be opened any more: %v", i, err)
			}
			st2.Close()
			ctx.Class("failed_open_unlistable_directory")
		case "race_open":
			// G goroutines race to open the directory
			var wg sync.WaitGroup
			var wins atomic.Int32
			handles := make([]*PersistentHybridIndex, op.G)
			start := make(chan struct{})
			if owner < 0 && op.G%2 == 1 {
				// the racers meet at a directory that does not exist yet (nobody owns it; what it held
				// is not looked at again by this check): every one of them may think it creates it
				os.RemoveAll(dir)
				ctx.Class("race_open_on_a_directory_that_does_not_exist_yet")
			}
			ownedBefore := vfDirSnapshot(dir)
			for g := 0; g < op.G; g++ {
				wg.Add(1)
				go func(g int) {
					defer wg.Done()
					<-start
					st, err := vfOpenStore(dir, &vfLockConf)
					if err == nil {
						wins.Add(1)
						handles[g] = st
					}
				}(g)
			}
			close(start)
			wg.Wait()
			want := int32(1)
			if owner >= 0 {
				want = 0
			}
			got := wins.Load()
			// while the winner still holds the directory its LOCK is there: a loser's clean-up after its
			// failed open must not have taken the directory (or the LOCK) away from under the winner
			lockWhileHeld := vfLockExists(dir)
			for _, h := range handles {
				if h != nil {
					h.Close()
				}
			}
			if got != want {
				return vfFail("op %d: %d goroutines raced to open the directory (owned before: %v): %d opens succeeded, want %d", i, op.G, owner >= 0, got, want)
			}
			if got == 1 && owner < 0 && !lockWhileHeld {
				return vfFail("op %d: %d goroutines raced to open the directory: one open succeeded, but there is no LOCK in the directory while the winner still holds it (a refused open cleaned up what was not its own)", i, op.G)
			}
			if owner >= 0 {
				if after := vfDirSnapshot(dir); after != ownedBefore {
					return vfFail("op %d: %d refused opens of an owned directory modified it:\n%s", i, op.G, vfFirstDiff(ownedBefore, after))
				}
			}
			if owner < 0 && vfLockExists(dir) {
				return vfFail("op %d: LOCK left behind after the winner of an open race closed", i)
			}
			raced = true
			ctx.Class("race_open")
		case "race_close":
			st := slots[op.Slot]
			if st == nil || !isOpen[op.Slot] {
				continue
			}
			var wg sync.WaitGroup
			start := make(chan struct{})
			var closeOK, closeErr atomic.Int32
			// even G: every goroutine is a closer, released through a spin barrier so that the
			// Close calls start within nanoseconds of each other; odd G: closers mixed with users
			allClose := op.G%2 == 0
			var ready atomic.Int32
			panicked := make(chan string, op.G)
			for g := 0; g < op.G; g++ {
				wg.Add(1)
				go func(g int) {
					defer wg.Done()
					defer func() {
						if r := recover(); r != nil {
							panicked <- fmt.Sprint(r)
						}
					}()
					<-start
					if allClose {
						ready.Add(1)
						for spin := 0; ready.Load() < int32(op.G); spin++ {
							if spin > 1<<16 {
								runtime.Gosched()
							}
						}
					}
					if allClose || g%3 == 0 {
						if err := st.Close(); err == nil {
							closeOK.Add(1)
						} else {
							closeErr.Add(1)
						}
						return
					}
					for j := 0; j < 5; j++ {
						vfUseHandle(st, []string{"add", "search", "flush", "getters", "remove"}[(g+j)%5], counter*100+g*10+j)
					}
				}(g)
			}
			close(start)
			wg.Wait()
			isOpen[op.Slot], owner = false, -1
			select {
			case p := <-panicked:
				return vfFail("op %d: panic while Close raced with %d other goroutines: %s", i, op.G-1, p)
			default:
			}
			ctx.ClassIf(allClose, "race_close_all_closers")
			if closeOK.Load() != 1 {
				return vfFail("op %d: %d concurrent Close calls returned nil (want exactly 1; %d returned an error)", i, closeOK.Load(), closeErr.Load())
			}
			if vfLockExists(dir) {
				return vfFail("op %d: LOCK still present after Close raced with other operations", i)
			}
			raced = true
			ctx.Class("race_close_vs_operations")
		case "race_close_open":
			// Close (with unflushed memtables pending) races with goroutines that try to open the
			// directory: whoever gets in must find a directory the old handle no longer touches
			st := slots[op.Slot]
			if st == nil || !isOpen[op.Slot] {
				continue
			}
			for j := 0; j < 8; j++ {
				if _, err := st.Add([]float32{float32(counter), float32(j)}, fmt.Sprintf("tok%d_%d common", counter, j), map[string]interface{}{"n": j}); err != nil {
					return vfFail("op %d: Add failed: %v", i, err)
				}
			}
			var wg sync.WaitGroup
			start := make(chan struct{})
			closeDone := make(chan error, 1)
			type entry struct {
				snap string
				st   *PersistentHybridIndex
			}
			entered := make(chan entry, op.G)
			go func() {
				<-start
				closeDone <- st.Close()
			}()
			var stop atomic.Bool
			// late writers: goroutines that keep calling Add / Flush on the handle that is being closed.
			// Whatever they do must be over (or refused) before the directory changes hands.
			var writers sync.WaitGroup
			var stopWriters atomic.Bool
			if op.Method == "late_writers" {
				for w := 0; w < 3; w++ {
					writers.Add(1)
					go func(w int) {
						defer writers.Done()
						defer func() { recover() }()
						<-start
						for j := 0; j < 400 && !stopWriters.Load(); j++ {
							if w > 0 {
								st.Add([]float32{float32(counter), float32(1000 + j)}, fmt.Sprintf("late%d_%d common", w, j), map[string]interface{}{"n": j})
							}
							st.Flush()
						}
					}(w)
				}
				ctx.Class("race_close_vs_open_with_late_writers")
			}
			for g := 0; g < op.G; g++ {
				wg.Add(1)
				go func() {
					defer wg.Done()
					<-start
					for !stop.Load() {
						nst, err := vfOpenStore(dir, &vfLockConf)
						if err == nil {
							stop.Store(true)
							entered <- entry{vfDirSnapshot(dir), nst}
							return
						}
						runtime.Gosched()
					}
				}()
			}
			close(start)
			cerr := <-closeDone
			wg.Wait()
			close(entered)
			isOpen[op.Slot], owner = false, -1
			if cerr != nil {
				return vfFail("op %d: Close racing with opens failed: %v", i, cerr)
			}
			// calls on the old handle that began after its Close returned are refused; wait for the rest
			writers.Wait()
			stopWriters.Store(true)
			n := 0
			for e := range entered {
				n++
				// the old Close has returned by now; nothing may have changed since the newcomer got in
				after := vfDirSnapshot(dir)
				e.st.Close()
				if after != e.snap {
					return vfFail("op %d: an Open succeeded while the closing handle was still writing to the directory (ownership released too early):\n%s", i, vfFirstDiff(e.snap, after))
				}
			}
			if n != 1 {
				return vfFail("op %d: %d racing opens got in during one Close, want exactly 1", i, n)
			}
			if vfLockExists(dir) {
				return vfFail("op %d: LOCK left behind", i)
			}
			raced = true
			ctx.Class("race_close_vs_open")
		case "other_process":
			if v := vfC17OtherProcess(dir, owner >= 0, i); v != nil {
				return v
			}
			ctx.Class("second_process")
		}
		if (owner >= 0) != vfLockExists(dir) {
			return vfFail("op %d (%s): LOCK present = %v but the directory is owned = %v", i, op.Op, vfLockExists(dir), owner >= 0)
		}
	}
	if refusedWhileOwned && reopenedAfterClose || raced {
		ctx.NonTrivial()
	}
	return nil
}

// vfC17OtherProcess: if we own the directory a child process must be refused; otherwise the
// child opens it, and while it holds it we must be refused; after the child closes we succeed.
func vfC17OtherProcess(dir string, weOwn bool, i int) *vfViolation {
	cmd := exec.Command(os.Args[0], "-test.run", "^TestVerif_C17Child$")
	cmd.Env = append(os.Environ(), "VERIF_C17_CHILD_DIR="+dir, "VERIF_OUT=", "VERIF_REPLAY=")
	stdin, _ := cmd.StdinPipe()
	stdout, _ := cmd.StdoutPipe()
	if err := cmd.Start(); err != nil {
		return vfFail("op %d: cannot start the child process: %v", i, err)
	}
	defer func() {
		stdin.Close()
		done := make(chan struct{})
		go func() { cmd.Wait(); close(done) }()
		select {
		case <-done:
		case <-time.After(10 * time.Second):
			cmd.Process.Kill()
		}
	}()
	rd := bufio.NewReader(stdout)
	line := ""
	for {
		l, err := rd.ReadString('\n')
		if strings.HasPrefix(l, "CHILD-") {
			line = strings.TrimSpace(l)
			break
		}
		if err != nil {
			return vfFail("op %d: the child process ended without reporting (%v)", i, err)
		}
	}
	if weOwn {
		if line != "CHILD-REFUSED" {
			return vfFail("op %d: another PROCESS opened the directory while this process owns it (%s)", i, line)
		}
		return nil
	}
	if line != "CHILD-OPENED" {
		return vfFail("op %d: another process could not open the free directory (%s)", i, line)
	}
	before := vfDirSnapshot(dir)
	st, err := vfOpenStore(dir, &vfLockConf)
	if err == nil {
		st.Close()
		return vfFail("op %d: Open succeeded while ANOTHER PROCESS owns the directory", i)
	}
	if after := vfDirSnapshot(dir); after != before {
		return vfFail("op %d: the Open refused because of another process modified the directory", i)
	}
	fmt.Fprintln(stdin, "close")
	for {
		l, err := rd.ReadString('\n')
		if strings.HasPrefix(l, "CHILD-CLOSED") {
			break
		}
		if err != nil {
			return vfFail("op %d: the child did not confirm its Close (%v)", i, err)
		}
	}
	st, err = vfOpenStore(dir, &vfLockConf)
	if err != nil {
		return vfFail("op %d: Open after the other process closed failed: %v", i, err)
	}
	if err := st.Close(); err != nil {
		return vfFail("op %d: Close failed: %v", i, err)
	}
	return nil
}

// TestVerif_C17Child is the body of the second process.
func TestVerif_C17Child(t *testing.T) {
	dir := os.Getenv("VERIF_C17_CHILD_DIR")
	if dir == "" {
		t.Skip("only runs as a child of TestVerif_C17")
	}
	st, err := vfOpenStore(dir, &vfLockConf)
	if err != nil {
		fmt.Println("CHILD-REFUSED")
		return
	}
	fmt.Println("CHILD-OPENED")
	bufio.NewReader(os.Stdin).ReadString('\n')
	if err := st.Close(); err != nil {
		fmt.Println("CHILD-CLOSE-FAILED", err)
		return
	}
	fmt.Println("CHILD-CLOSED")
}

func TestVerif_C17(t *testing.T) { vfCheck(t, "C17", vfC17Gen, vfC17Run) }

// vfC17RefusedTrainLeavesTemplate: a store with an IVF template is opened, used and closed; Train on the
// closed handle must be refused and the template object (which the caller still holds and which a
// later Open with the same configuration would use) must serialise to the same bytes as before.
func vfC17RefusedTrainLeavesTemplate(i int) *vfViolation {
	dir, err := os.MkdirTemp(vfEnv("VERIF_SCRATCH"), "c17train-")
	if err != nil {
		return vfFail("mkdir: %v", err)
	}
	defer os.RemoveAll(dir)
	conf := vfStoreConf{VecKind: "ivf", Metric: string(Euclidean), Dim: 2, HasText: true, MemLimit: 1000, FlushThr: 1 << 40, CompThr: 4,
		Train: [][]float32{{0, 0}, {0, 1}, {10, 10}, {10, 11}, {20, 0}, {21, 0}, {-5, 5}, {-5, 6}}}
	st, err := vfOpenStore(dir, &conf)
	if err != nil {
		return vfFail("op %d: Open of a store with an IVF template: %v", i, err)
	}
	if _, err := st.Add([]float32{1, 1}, "tok train", nil); err != nil {
		st.Close()
		return vfFail("op %d: Add: %v", i, err)
	}
	if err := st.Close(); err != nil {
		return vfFail("op %d: Close: %v", i, err)
	}
	tmpl, ok := st.VectorIndex().(io.WriterTo)
	if !ok {
		return nil
	}
	var before, after bytes.Buffer
	if _, err := tmpl.WriteTo(&before); err != nil {
		return vfFail("op %d: serialising the template: %v", i, err)
	}
	for rep := 0; rep < 2; rep++ {
		if err := st.Train([][]float32{{100, 100}, {101, 100}, {-100, 100}, {-100, 101}, {100, -100}, {100, -101}, {-100, -100}, {-101, -100}}); err == nil {
			return vfFail("op %d: Train on a CLOSED handle (IVF template) returned nil", i)
		}
	}
	if _, err := tmpl.WriteTo(&after); err != nil {
		return vfFail("op %d: serialising the template: %v", i, err)
	}
	if !bytes.Equal(before.Bytes(), after.Bytes()) {
		return vfFail("op %d: Train on a CLOSED handle was refused with an error but changed the vector index template (its serialised form differs: %d vs %d bytes, first difference at byte %d)", i, before.Len(), after.Len(), vfFirstDiffByte(before.Bytes(), after.Bytes()))
	}
	return nil
}

func vfFirstDiffByte(a, b []byte) int {
	for j := 0; j < len(a) && j < len(b); j++ {
		if a[j] != b[j] {
			return j
		}
	}
	if len(a) < len(b) {
		return len(a)
	}
	return len(b)
}
