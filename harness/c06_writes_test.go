package comet

// C06 — writes are all-or-nothing, removals are total, and remove+add updates a document.
// Oracle: stateful model (id -> document) + a fixed probe battery whose complete output must
// be unchanged by every failed operation; the same remove / re-add / flush patterns against
// each of the seven underlying index kinds on their own.

import (
	"errors"
	"fmt"
	"math"
	"sort"
	"strings"
	"testing"

	"pgregory.net/rapid"
)

type vfWOp struct {
	Op   string `json:"op"` // add | add_fail | remove | flush
	Doc  *vfDoc `json:"doc,omitempty"`
	Fail string `json:"fail,omitempty"` // dim | zero | text | meta_slice | meta_nil | meta_struct
	// remove / re-add target: ordinal of an earlier successful add (-1: never-added id)
	Ref   int  `json:"ref"`
	ReAdd bool `json:"re_add,omitempty"` // add: reuse the id of the removed document Ref
}

type vfDirectOp struct {
	Op      string `json:"op"` // add | remove | flush
	ID      uint32 `json:"id,omitempty"`
	Content int    `json:"content,omitempty"`
}

type vfC06Case struct {
	VecKind   string       `json:"vec_kind"` // flat | hnsw | ivf | pq | ivfpq
	Metric    string       `json:"metric"`
	Dim       int          `json:"dim"`
	Untrained bool         `json:"untrained,omitempty"`
	HasVec    bool         `json:"has_vector_index"`
	HasText   bool         `json:"has_text_index"`
	HasMeta   bool         `json:"has_metadata_index"`
	Train     [][]float32  `json:"train,omitempty"`
	Probes    [][]float32  `json:"probes"`
	Ops       []vfWOp      `json:"ops"`
	Direct    string       `json:"direct_kind"` // flat | hnsw | ivf | pq | ivfpq | bm25 | metadata
	DirectOps []vfDirectOp `json:"direct_ops"`
	Contents  [][]float32  `json:"contents"` // direct: content i = vector Contents[i] / token "w<i>" / {"c": i}
}

const vfRejectMarker = "REJECTME"

// vfRejectingText is a TextIndex that wraps BM25 and rejects a marker text: the only way to
// make the 2nd sub-index fail (the interface admits failing text indexes).
type vfRejectingText struct{ *BM25SearchIndex }

func (t *vfRejectingText) Add(id uint32, text string) error {
	if strings.Contains(text, vfRejectMarker) {
		return errors.New("text rejected by the test stub")
	}
	return t.BM25SearchIndex.Add(id, text)
}

// vfRejectingMeta is a MetadataIndex that wraps the roaring index and rejects documents carrying a
// marker key with a SUPPORTED value type: the hybrid index validates value types before it touches
// any sub-index, so this is the only way to make the THIRD sub-index fail after the vector and the
// text have been added (the roll-back path).
type vfRejectingMeta struct{ *RoaringMetadataIndex }

func (m *vfRejectingMeta) Add(node MetadataNode) error {
	if _, bad := node.Metadata()[vfRejectMarker]; bad {
		return errors.New("metadata rejected by the test stub")
	}
	return m.RoaringMetadataIndex.Add(node)
}

func vfBadMetaValue(kind string) interface{} {
	// anything outside the five supported types (int, int64, float64, string, bool)
	switch kind {
	case "meta_slice":
		return []int{1, 2}
	case "meta_nil":
		return nil
	case "meta_int32":
		return int32(5)
	case "meta_float32":
		return float32(1.5)
	case "meta_uint":
		return uint(7)
	case "meta_uint64":
		return uint64(7)
	case "meta_int8":
		return int8(3)
	case "meta_strslice":
		return []string{"a"}
	case "meta_map":
		return map[string]interface{}{"x": 1}
	case "meta_ptr":
		x := 5
		return &x
	default:
		return struct{ A int }{1}
	}
}

func vfC06Gen(rt *rapid.T) vfC06Case {
	c := vfC06Case{}
	c.VecKind = rapid.SampledFrom(vfKinds).Draw(rt, "vec_kind")
	kind := rapid.SampledFrom([]DistanceKind{Cosine, Cosine, Euclidean, L2Squared}).Draw(rt, "metric")
	c.Metric = string(kind)
	c.Dim = 2 * rapid.IntRange(1, 2).Draw(rt, "half_dim")
	conf := 7
	if rapid.IntRange(0, 4).Draw(rt, "partial_config") == 0 {
		conf = rapid.IntRange(1, 7).Draw(rt, "configured")
	}
	c.HasVec, c.HasText, c.HasMeta = conf&1 != 0, conf&2 != 0, conf&4 != 0
	g := vfNewVecGen(rt, c.Dim)
	switch c.VecKind {
	case "ivf", "pq", "ivfpq":
		c.Train = vfGenTrainingSet(rt, g, 20, 30, kind == Cosine)
		c.Untrained = rapid.IntRange(0, 9).Draw(rt, "untrained") == 0
	}
	for i := 0; i < 2; i++ {
		c.Probes = append(c.Probes, g.drawNonZero(rt, "probe"))
	}
	nAdds := 0
	var liveRefs, removedRefs []int
	genDoc := func(rt *rapid.T) *vfDoc {
		d := &vfDoc{}
		mods := rapid.IntRange(1, 7).Draw(rt, "doc_modalities")
		if rapid.Bool().Draw(rt, "doc_all") {
			mods = 7
		}
		if mods&1 != 0 {
			d.Vec = g.drawNonZero(rt, "dv")
		}
		if mods&2 != 0 {
			d.Text = vfGenText(rt, "dt", 4)
		}
		if mods&4 != 0 {
			d.Meta = map[string]vfMVal{}
			for _, name := range vfMFieldNames {
				if rapid.IntRange(0, 2).Draw(rt, "has_"+name) > 0 {
					d.Meta[name] = vfGenMVal(rt, vfMFields[name], name)
				}
			}
		}
		return d
	}
	used := map[uint32]bool{}
	opGen := rapid.Custom(func(rt *rapid.T) vfWOp {
		w := rapid.IntRange(0, 99).Draw(rt, "opclass")
		switch {
		case w < 35 || nAdds == 0:
			d := genDoc(rt)
			op := vfWOp{Op: "add", Doc: d, Ref: -1}
			if len(removedRefs) > 0 && rapid.IntRange(0, 2).Draw(rt, "reuse_removed_id") == 0 {
				j := rapid.IntRange(0, len(removedRefs)-1).Draw(rt, "reuse_idx")
				op.ReAdd, op.Ref = true, removedRefs[j]
				removedRefs = append(removedRefs[:j:j], removedRefs[j+1:]...)
			} else if rapid.IntRange(0, 2).Draw(rt, "explicit_id") > 0 {
				for {
					d.ID = uint32(1<<30 + rapid.IntRange(0, 1<<20).Draw(rt, "doc_id"))
					if rapid.IntRange(0, 7).Draw(rt, "id_at_the_top_of_the_range") == 0 {
						// explicit ids right below 2^32 (e.g. hashed external keys): automatic ids must stay
						// clear of them and of everything handed out before
						d.ID = math.MaxUint32 - uint32(rapid.IntRange(0, 3).Draw(rt, "top_id"))
					}
					if !used[d.ID] {
						used[d.ID] = true
						break
					}
				}
			}
			liveRefs = append(liveRefs, nAdds)
			nAdds++
			return op
		case w < 55:
			d := genDoc(rt)
			fail := rapid.SampledFrom([]string{"dim", "dim", "dim", "zero", "zero", "zero", "text", "text", "meta_stub", "meta_stub", "meta_slice", "meta_nil", "meta_struct", "meta_int32", "meta_float32", "meta_uint", "meta_uint64", "meta_int8", "meta_strslice", "meta_map", "meta_ptr"}).Draw(rt, "fail_kind")
			if rapid.Bool().Draw(rt, "fail_explicit_id") {
				d.ID = uint32(1<<30 + (1 << 21) + rapid.IntRange(0, 1000).Draw(rt, "fail_doc_id"))
			}
			if len(removedRefs) > 0 && rapid.IntRange(0, 1).Draw(rt, "fail_on_removed_id") == 0 {
				return vfWOp{Op: "add_fail", Doc: d, Fail: fail, ReAdd: true, Ref: removedRefs[rapid.IntRange(0, len(removedRefs)-1).Draw(rt, "fail_reuse_idx")]}
			}
			return vfWOp{Op: "add_fail", Doc: d, Fail: fail, Ref: -1}
		case w < 80:
			switch r := rapid.IntRange(0, 9).Draw(rt, "rmclass"); {
			case r < 6 && len(liveRefs) > 0:
				j := rapid.IntRange(0, len(liveRefs)-1).Draw(rt, "rm_idx")
				ref := liveRefs[j]
				liveRefs = append(liveRefs[:j:j], liveRefs[j+1:]...)
				removedRefs = append(removedRefs, ref)
				return vfWOp{Op: "remove", Ref: ref}
			case r < 8 && len(removedRefs) > 0:
				return vfWOp{Op: "remove", Ref: removedRefs[rapid.IntRange(0, len(removedRefs)-1).Draw(rt, "rm_again")]}
			default:
				return vfWOp{Op: "remove", Ref: -1}
			}
		default:
			return vfWOp{Op: "flush", Ref: -1}
		}
	})
	c.Ops = vfListOf(rt, "ops", opGen, 1, 40)

	// per-index clause
	c.Direct = rapid.SampledFrom([]string{"flat", "hnsw", "ivf", "pq", "ivfpq", "bm25", "metadata"}).Draw(rt, "direct_kind")
	for i := 0; i < 4; i++ {
		c.Contents = append(c.Contents, g.drawNonZero(rt, "content"))
	}
	state := map[uint32]int{} // 0 absent, 1 live, 2 removed (unflushed or flushed)
	dGen := rapid.Custom(func(rt *rapid.T) vfDirectOp {
		id := uint32(rapid.IntRange(1, 3).Draw(rt, "d_id"))
		switch w := rapid.IntRange(0, 11).Draw(rt, "d_class"); {
		case w < 2:
			return vfDirectOp{Op: "flush"}
		case w >= 10:
			// an add that must fail (zero vector under cosine / wrong dimension), also on a removed id
			return vfDirectOp{Op: "add_fail", ID: id, Content: rapid.IntRange(0, 1).Draw(rt, "d_fail_kind")}
		case state[id] == 1:
			state[id] = 2
			return vfDirectOp{Op: "remove", ID: id}
		default:
			state[id] = 1
			return vfDirectOp{Op: "add", ID: id, Content: rapid.IntRange(0, 3).Draw(rt, "d_content")}
		}
	})
	c.DirectOps = vfListOf(rt, "direct_ops", dGen, 2, 24)
	return c
}

// ---- hybrid part -----------------------------------------------------------------

type vfC06State struct {
	c     *vfC06Case
	h     HybridSearchIndex
	vi    VectorIndex
	ti    TextIndex
	mi    MetadataIndex
	m     *vfHybridModel
	ut    *vfIndexUT
	nlist int
}

// battery runs the fixed probe battery and returns (a) a signature of the complete output
// (ids and scores) and (b) a violation if the output disagrees with the model.
func (s *vfC06State) battery(checkModel bool) (string, *vfViolation) {
	var sig strings.Builder
	c := s.c
	const bigK = 100000
	render := func(label string, ids []uint32, scores map[uint32]float64) {
		sort.Slice(ids, func(i, j int) bool { return ids[i] < ids[j] })
		sig.WriteString(label + ":")
		for _, id := range ids {
			fmt.Fprintf(&sig, " %d=%x", id, math.Float64bits(scores[id]))
		}
		sig.WriteString("\n")
	}
	// --- vector probes
	if c.HasVec && !c.Untrained {
		wantIDs := map[uint32]bool{}
		for id := range s.m.vec.live {
			wantIDs[id] = true
		}
		for pi, p := range c.Probes {
			// through the hybrid index
			hres, err := s.h.NewSearch().WithVector(vfCloneF32(p)).WithK(bigK).WithNProbes(1000).Execute()
			if err != nil {
				return "", vfFail("probe vector %d through the hybrid index failed: %v", pi, err)
			}
			// through the vector index on its own
			vres, err := s.vi.NewSearch().WithQuery(vfCloneF32(p)).WithK(0).WithNProbes(0).Execute()
			if err != nil {
				return "", vfFail("probe vector %d through VectorIndex() failed: %v", pi, err)
			}
			hs, vs := map[uint32]float64{}, map[uint32]float64{}
			var hids, vids []uint32
			for _, r := range hres {
				hs[r.ID] = r.Score
				hids = append(hids, r.ID)
			}
			for _, r := range vres {
				vs[r.GetId()] = float64(r.GetScore())
				vids = append(vids, r.GetId())
			}
			render(fmt.Sprintf("hybrid-vector-%d", pi), hids, hs)
			render(fmt.Sprintf("vector-index-%d", pi), vids, vs)
			if !checkModel {
				continue
			}
			for _, set := range []struct {
				name string
				ids  []uint32
				sc   map[uint32]float64
			}{{"hybrid search", hids, hs}, {"VectorIndex()", vids, vs}} {
				got := map[uint32]bool{}
				for _, id := range set.ids {
					got[id] = true
				}
				for id := range wantIDs {
					if !got[id] {
						return "", vfFail("document %d supplied a vector and is live, but a vector query through %s does not find it (%d of %d found)", id, set.name, len(set.ids), len(wantIDs))
					}
				}
				scorer := s.ut.scorer(s.m.vec.live, p)
				for _, id := range set.ids {
					if !wantIDs[id] {
						return "", vfFail("document %d is found by a vector query through %s but it is not a live document with a vector (removed or its add failed)", id, set.name)
					}
					want, tol := scorer(id)
					if math.Abs(set.sc[id]-want) > tol {
						return "", vfFail("document %d: vector score %v through %s, but its CURRENT vector gives %v (stale content?)", id, set.sc[id], set.name, want)
					}
				}
			}
		}
	}
	// --- text probes: every vocabulary token
	if c.HasText {
		tokens := map[string]bool{}
		for _, toks := range s.m.text.resident {
			for _, t := range toks {
				if strings.TrimSpace(t) != "" {
					tokens[t] = true
				}
			}
		}
		tokens["fox"], tokens["zeta"] = true, true
		var tl []string
		for t := range tokens {
			tl = append(tl, t)
		}
		sort.Strings(tl)
		for _, tok := range tl {
			hres, err := s.h.NewSearch().WithText(tok).WithK(bigK).Execute()
			if err != nil {
				return "", vfFail("text probe %q through the hybrid index failed: %v", tok, err)
			}
			tres, err := s.ti.NewSearch().WithQuery(tok).WithK(0).Execute()
			if err != nil {
				return "", vfFail("text probe %q through TextIndex() failed: %v", tok, err)
			}
			hs, ts := map[uint32]float64{}, map[uint32]float64{}
			var hids, tids []uint32
			for _, r := range hres {
				hs[r.ID] = r.Score
				hids = append(hids, r.ID)
			}
			for _, r := range tres {
				ts[r.GetId()] = float64(r.GetScore())
				tids = append(tids, r.GetId())
			}
			render("hybrid-text-"+tok, hids, hs)
			render("text-index-"+tok, tids, ts)
			if !checkModel {
				continue
			}
			want := s.m.text.scores(tok, nil)
			for _, set := range []struct {
				name string
				ids  []uint32
				sc   map[uint32]float64
			}{{"hybrid search", hids, hs}, {"TextIndex()", tids, ts}} {
				if len(set.ids) != len(want) {
					return "", vfFail("text query %q through %s finds %d documents %v, the model has %d matching live documents", tok, set.name, len(set.ids), set.ids, len(want))
				}
				for _, id := range set.ids {
					w, ok := want[id]
					if !ok {
						return "", vfFail("text query %q through %s finds document %d, which has no such token in its CURRENT text (or is removed / its add failed)", tok, set.name, id)
					}
					if math.Abs(set.sc[id]-w) > 2*vfTextTol(w) {
						return "", vfFail("text query %q through %s: document %d scores %v, BM25 over the current corpus gives %v", tok, set.name, id, set.sc[id], w)
					}
				}
			}
		}
	}
	// --- metadata probes
	if c.HasMeta {
		for _, name := range vfMFieldNames {
			filters := []vfMFilter{{Field: name, Op: "exists"}}
			vals := map[string]vfMVal{}
			for _, doc := range s.m.meta.docs {
				if v, ok := doc[name]; ok {
					vals[fmt.Sprint(v.goValue())] = v
				}
			}
			var keys []string
			for k := range vals {
				keys = append(keys, k)
			}
			sort.Strings(keys)
			for _, k := range keys {
				v := vals[k]
				filters = append(filters, vfMFilter{Field: name, Op: "eq", V: &v})
			}
			for _, f := range filters {
				f := f
				hres, err := s.h.NewSearch().WithMetadata(vfToFilter(&f)).WithK(bigK).Execute()
				if err != nil {
					return "", vfFail("metadata probe %s through the hybrid index failed: %v", vfDescribeFilters([][]vfMFilter{{f}}), err)
				}
				mres, err := s.mi.NewSearch().WithFilters(vfToFilter(&f)).Execute()
				if err != nil {
					return "", vfFail("metadata probe through MetadataIndex() failed: %v", err)
				}
				var hids []uint32
				hs := map[uint32]float64{}
				for _, r := range hres {
					hids = append(hids, r.ID)
					hs[r.ID] = r.Score
				}
				mids := vfMetaIDs(mres)
				render("hybrid-meta-"+vfDescribeFilters([][]vfMFilter{{f}}), hids, hs)
				render("meta-index-"+vfDescribeFilters([][]vfMFilter{{f}}), mids, map[uint32]float64{})
				if !checkModel {
					continue
				}
				want := s.m.meta.eval([][]vfMFilter{{f}}, "")
				sort.Slice(hids, func(i, j int) bool { return hids[i] < hids[j] })
				if fmt.Sprint(hids) != fmt.Sprint(want) || fmt.Sprint(mids) != fmt.Sprint(want) {
					return "", vfFail("metadata filter %s: hybrid search finds %v, MetadataIndex() finds %v, the model has %v", vfDescribeFilters([][]vfMFilter{{f}}), hids, mids, want)
				}
			}
		}
		// a probe for a field only failing adds use
		f := vfMFilter{Field: "bad", Op: "exists"}
		mres, err := s.mi.NewSearch().WithFilters(vfToFilter(&f)).Execute()
		if err == nil {
			render("meta-index-bad-exists", vfMetaIDs(mres), map[uint32]float64{})
			if checkModel && len(mres) != 0 {
				return "", vfFail("a document is findable through the field of a failed add: %v", vfMetaIDs(mres))
			}
		}
		all, err := s.mi.NewSearch().Execute()
		if err == nil {
			render("meta-index-all", vfMetaIDs(all), map[uint32]float64{})
		}
	}
	return sig.String(), nil
}

func vfC06Hybrid(c *vfC06Case, ctx *vfCtx) *vfViolation {
	kind := DistanceKind(c.Metric)
	s := &vfC06State{c: c, m: vfNewHybridModel(kind)}
	if c.HasVec {
		cc := vfC02Case{Kind: c.VecKind, Metric: c.Metric, Dim: c.Dim, M: 32, EfC: 200, EfS: 200, NList: 3, NBits: 2}
		if c.VecKind == "pq" || c.VecKind == "ivfpq" {
			cc.M = 2
			cc.NList = 2
		}
		if !c.Untrained {
			cc.Train = c.Train
		}
		ut, err := vfBuildIndex(&cc)
		if err != nil {
			return vfFail("building the %s vector index: %v", c.VecKind, err)
		}
		s.ut, s.vi = ut, ut.idx
	}
	if c.HasText {
		s.ti = &vfRejectingText{NewBM25SearchIndex()}
	}
	if c.HasMeta {
		s.mi = &vfRejectingMeta{NewRoaringMetadataIndex()}
	}
	s.h = NewHybridSearchIndex(s.vi, s.ti, s.mi)
	ctx.Class("vec_kind=" + c.VecKind)

	var addIDs []uint32               // ordinal -> id (0 when the add did not take place)
	everReturned := map[uint32]bool{} // ids returned by Add
	failedThenOK, reAdded := false, false
	sawFail := false

	for i := range c.Ops {
		op := &c.Ops[i]
		switch op.Op {
		case "add", "add_fail":
			d := *op.Doc
			id := d.ID
			if op.ReAdd {
				if op.Ref < 0 || op.Ref >= len(addIDs) || addIDs[op.Ref] == 0 {
					if op.Op == "add" {
						addIDs = append(addIDs, 0)
					}
					continue
				}
				id = addIDs[op.Ref]
				if _, live := s.m.live[id]; live {
					if op.Op == "add" {
						addIDs = append(addIDs, 0)
					}
					continue // the id is in use again (replays only)
				}
			} else if id != 0 {
				if _, live := s.m.live[id]; live {
					if op.Op == "add" {
						addIDs = append(addIDs, 0)
					}
					continue
				}
			}
			vec := vfCloneF32(d.Vec)
			text := d.Text
			meta := vfMetaToGo(d.Meta)
			expectFail := false
			if op.Op == "add_fail" {
				switch op.Fail {
				case "dim":
					if c.HasVec {
						vec = append(vfCloneF32(c.Probes[0]), 1)
						expectFail = true
					}
				case "zero":
					if c.HasVec && kind == Cosine {
						vec = make([]float32, c.Dim)
						expectFail = true
					}
				case "text":
					if c.HasText {
						text = "fox " + vfRejectMarker + " zeta"
						expectFail = true
					}
				default:
					if c.HasMeta {
						if meta == nil {
							meta = map[string]interface{}{}
						}
						if op.Fail == "meta_stub" {
							meta[vfRejectMarker] = 1
						} else {
							meta["bad"] = vfBadMetaValue(op.Fail)
						}
						meta["s1"] = "a"
						meta["i1"] = 7
						expectFail = true
					}
				}
				if !expectFail {
					continue // this failure mode does not exist in this configuration
				}
			}
			if c.HasVec && c.Untrained && len(vec) > 0 {
				expectFail = true
			}
			var before string
			if expectFail {
				var v *vfViolation
				if before, v = s.battery(false); v != nil {
					return v
				}
			}
			var err error
			if id == 0 {
				id, err = s.h.Add(vec, text, meta)
			} else {
				err = s.h.AddWithID(id, vec, text, meta)
			}
			if expectFail {
				if err == nil {
					return vfFail("op %d: an add that must fail (%s, untrained=%v) succeeded", i, op.Fail, c.Untrained)
				}
				sawFail = true
				after, v := s.battery(true)
				if v != nil {
					v.Msg = fmt.Sprintf("op %d: after the FAILED add of document %d (%s): %s", i, id, op.Fail, v.Msg)
					return v
				}
				if after != before {
					return vfFail("op %d: the failed add of document %d (%s: %v) changed what searches return:\n%s", i, id, op.Fail, err, vfFirstDiff(before, after))
				}
				ctx.Class("failed_add=" + op.Fail)
				if op.Op == "add" {
					addIDs = append(addIDs, 0)
				}
				continue
			}
			if err != nil {
				return vfFail("op %d: add of document %d failed: %v", i, id, err)
			}
			if d.ID == 0 && !op.ReAdd {
				if everReturned[id] {
					return vfFail("op %d: Add returned id %d for the second time", i, id)
				}
				if _, live := s.m.live[id]; live {
					return vfFail("op %d: Add returned id %d which belongs to a live document", i, id)
				}
				everReturned[id] = true
			}
			if op.ReAdd {
				reAdded = true
				ctx.Class("re_add_of_removed_id")
				// model of the underlying indexes: the new content replaces the tombstoned one
				// (only in the modalities the new version supplies; elsewhere the old tombstone stays)
				if c.HasVec && len(d.Vec) > 0 {
					delete(s.m.vec.resident, id)
				}
				if c.HasText && d.Text != "" {
					delete(s.m.text.deleted, id)
					delete(s.m.text.resident, id)
				}
			}
			if sawFail {
				failedThenOK = true
			}
			s.m.add(id, &d, c.HasVec, c.HasText, c.HasMeta)
			addIDs = append(addIDs, id)
		case "remove":
			var id uint32 = 3999999999
			known := false
			if op.Ref >= 0 && op.Ref < len(addIDs) && addIDs[op.Ref] != 0 {
				id = addIDs[op.Ref]
				_, known = s.m.live[id]
			}
			if known {
				if err := s.h.Remove(id); err != nil {
					return vfFail("op %d: Remove(%d) of a live document failed: %v", i, id, err)
				}
				s.m.remove(id)
			} else {
				before, v := s.battery(false)
				if v != nil {
					return v
				}
				if err := s.h.Remove(id); err == nil {
					return vfFail("op %d: Remove(%d) of an unknown / already removed document succeeded", i, id)
				}
				after, v := s.battery(false)
				if v != nil {
					return v
				}
				if before != after {
					return vfFail("op %d: the failed Remove(%d) changed what searches return:\n%s", i, id, vfFirstDiff(before, after))
				}
				ctx.Class("failed_remove")
				continue
			}
		case "flush":
			if err := s.h.Flush(); err != nil {
				return vfFail("op %d: Flush: %v", i, err)
			}
			s.m.flush()
			ctx.ClassIf(reAdded, "flush_after_re_add")
		}
		if _, v := s.battery(true); v != nil {
			v.Msg = fmt.Sprintf("op %d (%s): %s", i, op.Op, v.Msg)
			return v
		}
	}
	if failedThenOK || reAdded {
		ctx.NonTrivial()
	}
	return nil
}

func vfFirstDiff(a, b string) string {
	la, lb := strings.Split(a, "\n"), strings.Split(b, "\n")
	for i := 0; i < len(la) || i < len(lb); i++ {
		var x, y string
		if i < len(la) {
			x = la[i]
		}
		if i < len(lb) {
			y = lb[i]
		}
		if x != y {
			return "  before: " + x + "\n  after:  " + y
		}
	}
	return "  (no textual difference)"
}

// ---- per-index clause ----------------------------------------------------------------

func vfC06Direct(c *vfC06Case, ctx *vfCtx) *vfViolation {
	var directCase *vfC02Case
	var ut *vfIndexUT
	var bm *BM25SearchIndex
	var mi *RoaringMetadataIndex
	switch c.Direct {
	case "bm25":
		bm = NewBM25SearchIndex()
	case "metadata":
		mi = NewRoaringMetadataIndex()
	default:
		cc := vfC02Case{Kind: c.Direct, Metric: c.Metric, Dim: c.Dim, M: 32, EfC: 200, EfS: 200, NList: 3, NBits: 2, Train: c.Train}
		if c.Direct == "pq" || c.Direct == "ivfpq" {
			cc.M, cc.NList = 2, 2
		}
		if len(cc.Train) == 0 && (c.Direct == "ivf" || c.Direct == "pq" || c.Direct == "ivfpq") {
			for i := 0; i < 24; i++ {
				v := vfCloneF32(c.Contents[i%len(c.Contents)])
				v[0] += float32(i) * 0.125
				if vfIsZero(v) {
					v[0] = 1 // (a zero vector cannot be trained on under cosine)
				}
				cc.Train = append(cc.Train, v)
			}
		}
		var err error
		if ut, err = vfBuildIndex(&cc); err != nil {
			return vfFail("direct: building a %s index: %v", c.Direct, err)
		}
		directCase = &cc
	}
	ctx.Class("direct_kind=" + c.Direct)
	live := map[uint32]int{}  // id -> content
	gone := map[uint32]bool{} // removed at some point and not re-added
	readd := false
	for i, op := range c.DirectOps {
		if op.Content < 0 || op.Content >= len(c.Contents) {
			continue
		}
		switch op.Op {
		case "add":
			if _, isLive := live[op.ID]; isLive || op.ID == 0 {
				continue
			}
			var err error
			switch {
			case bm != nil:
				err = bm.Add(op.ID, fmt.Sprintf("w%d common", op.Content))
			case mi != nil:
				err = mi.Add(*NewMetadataNodeWithID(op.ID, map[string]interface{}{"c": op.Content, "tag": fmt.Sprintf("t%d", op.Content)}))
			default:
				err = ut.idx.Add(*NewVectorNodeWithID(op.ID, vfCloneF32(c.Contents[op.Content])))
			}
			if err != nil {
				return vfFail("direct %s op %d: Add(%d): %v", c.Direct, i, op.ID, err)
			}
			wasGone := gone[op.ID]
			if wasGone {
				readd = true
				ctx.Class("direct_re_add")
			}
			delete(gone, op.ID)
			live[op.ID] = op.Content
			if wasGone && (c.Direct == "pq" || c.Direct == "ivfpq") {
				// the quantising kinds score against what they STORED (codes): "only the new content" is
				// decided against a fresh index of the same training that holds exactly the live documents
				// (codes and cluster assignment are a deterministic function of codebooks and vector)
				fresh, err := vfBuildIndex(directCase)
				if err != nil {
					return vfFail("direct: building the reference %s index: %v", c.Direct, err)
				}
				for _, id := range vfKeys(live) {
					if err := fresh.idx.Add(*NewVectorNodeWithID(id, vfCloneF32(c.Contents[live[id]]))); err != nil {
						return vfFail("direct: reference Add: %v", err)
					}
				}
				for ci := range c.Contents {
					a, err1 := ut.idx.NewSearch().WithQuery(vfCloneF32(c.Contents[ci])).WithK(0).WithNProbes(0).Execute()
					b, err2 := fresh.idx.NewSearch().WithQuery(vfCloneF32(c.Contents[ci])).WithK(0).WithNProbes(0).Execute()
					if err1 != nil || err2 != nil {
						return vfFail("direct %s op %d: search: %v / %v", c.Direct, i, err1, err2)
					}
					sa, sb := map[uint32]float32{}, map[uint32]float32{}
					for _, r := range a {
						sa[r.GetId()] = r.GetScore()
					}
					for _, r := range b {
						sb[r.GetId()] = r.GetScore()
					}
					for id, x := range sb {
						y, ok := sa[id]
						if !ok || math.Abs(float64(x)-float64(y)) > 1e-6*(1+math.Abs(float64(x))) {
							return vfFail("direct %s op %d: after re-adding id %d with content %d, id %d scores %v (found=%v) against query content %d; a fresh index holding the same live documents scores it %v — the old code / cluster is still in use?", c.Direct, i, op.ID, op.Content, id, y, ok, ci, x)
						}
					}
					if len(sa) != len(sb) {
						return vfFail("direct %s op %d: after a re-add the index returns %d documents, a fresh index with the same live documents %d", c.Direct, i, len(sa), len(sb))
					}
				}
				ctx.Class("direct_re_add_compared_with_a_fresh_quantising_index")
			}
		case "add_fail":
			if ut == nil {
				continue // the text and metadata indexes have no failing adds of this kind
			}
			if _, isLive := live[op.ID]; isLive {
				continue
			}
			bad := make([]float32, c.Dim) // zero vector: rejected under cosine
			if op.Content == 1 || DistanceKind(c.Metric) != Cosine {
				bad = append(vfCloneF32(c.Contents[0]), 1) // wrong dimension: rejected by every kind
			}
			if err := ut.idx.Add(*NewVectorNodeWithID(op.ID, bad)); err == nil {
				return vfFail("direct %s op %d: an invalid vector (len %d) was accepted", c.Direct, i, len(bad))
			}
			ctx.ClassIf(gone[op.ID], "direct_failed_re_add")
		case "remove":
			if _, isLive := live[op.ID]; !isLive {
				continue
			}
			var err error
			switch {
			case bm != nil:
				err = bm.Remove(op.ID)
			case mi != nil:
				err = mi.Remove(*NewMetadataNodeWithID(op.ID, nil))
			default:
				err = ut.idx.Remove(*NewVectorNodeWithID(op.ID, nil))
			}
			if err != nil {
				return vfFail("direct %s op %d: Remove(%d): %v", c.Direct, i, op.ID, err)
			}
			delete(live, op.ID)
			gone[op.ID] = true
		case "flush":
			var err error
			switch {
			case bm != nil:
				err = bm.Flush()
			case mi != nil:
				err = mi.Flush()
			default:
				err = ut.idx.Flush()
			}
			if err != nil {
				return vfFail("direct %s op %d: Flush: %v", c.Direct, i, err)
			}
		}
		// probe: every content
		for ci := range c.Contents {
			want := map[uint32]bool{}
			for id, cc := range live {
				if cc == ci {
					want[id] = true
				}
			}
			var got []uint32
			switch {
			case bm != nil:
				res, err := bm.NewSearch().WithQuery(fmt.Sprintf("w%d", ci)).WithK(0).Execute()
				if err != nil {
					return vfFail("direct bm25 op %d: search: %v", i, err)
				}
				for _, r := range res {
					got = append(got, r.GetId())
				}
			case mi != nil:
				res, err := mi.NewSearch().WithFilters(Eq("c", ci)).Execute()
				if err != nil {
					return vfFail("direct metadata op %d: search: %v", i, err)
				}
				got = vfMetaIDs(res)
				res2, err := mi.NewSearch().WithFilters(Eq("tag", fmt.Sprintf("t%d", ci))).Execute()
				if err != nil || fmt.Sprint(vfMetaIDs(res2)) != fmt.Sprint(got) {
					return vfFail("direct metadata op %d: numeric and categorical views disagree: %v vs %v (%v)", i, got, vfMetaIDs(res2), err)
				}
			default:
				q := c.Contents[ci]
				res, err := ut.idx.NewSearch().WithQuery(vfCloneF32(q)).WithK(0).WithNProbes(0).Execute()
				if err != nil {
					return vfFail("direct %s op %d: search: %v", c.Direct, i, err)
				}
				if len(res) != len(live) {
					ids := []uint32{}
					for _, r := range res {
						ids = append(ids, r.GetId())
					}
					return vfFail("direct %s op %d (%s %d): a full search returns ids %v, but the live ids are %v", c.Direct, i, op.Op, op.ID, ids, vfKeys(live))
				}
				modelVecs := map[uint32][]float32{}
				for id, cc := range live {
					modelVecs[id] = c.Contents[cc]
				}
				scorer := ut.scorer(modelVecs, q)
				for _, r := range res {
					if _, ok := live[r.GetId()]; !ok {
						return vfFail("direct %s op %d: id %d returned but it is not live", c.Direct, i, r.GetId())
					}
					w, tol := scorer(r.GetId())
					if math.Abs(float64(r.GetScore())-w) > tol {
						return vfFail("direct %s op %d (%s %d): id %d scores %v but its CURRENT content %d gives %v — stale content after remove+add?", c.Direct, i, op.Op, op.ID, r.GetId(), r.GetScore(), live[r.GetId()], w)
					}
				}
				continue
			}
			sort.Slice(got, func(a, b int) bool { return got[a] < got[b] })
			var wl []uint32
			for id := range want {
				wl = append(wl, id)
			}
			sort.Slice(wl, func(a, b int) bool { return wl[a] < wl[b] })
			if fmt.Sprint(got) != fmt.Sprint(wl) {
				return vfFail("direct %s op %d (%s %d): content %d is found for ids %v, but the ids currently holding it are %v", c.Direct, i, op.Op, op.ID, ci, got, wl)
			}
		}
	}
	if readd {
		ctx.NonTrivial()
	}
	return nil
}

func vfKeys(m map[uint32]int) []uint32 {
	var out []uint32
	for k := range m {
		out = append(out, k)
	}
	sort.Slice(out, func(i, j int) bool { return out[i] < out[j] })
	return out
}

func vfC06Run(c vfC06Case, ctx *vfCtx) *vfViolation {
	ctx.HistoryLen("history", len(c.Ops))
	if v := vfC06Hybrid(&c, ctx); v != nil {
		return v
	}
	return vfC06Direct(&c, ctx)
}

func TestVerif_C06(t *testing.T) { vfCheck(t, "C06", vfC06Gen, vfC06Run) }
