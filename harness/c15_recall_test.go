package comet

// C15 — approximate indexes stay inside their documented recall envelope.
// Oracle: exact search (flat index, itself checked by C01) on generated Gaussian data.

import (
	"fmt"
	"math/rand/v2"
	"testing"

	"pgregory.net/rapid"
)

type vfC15Case struct {
	Seed   uint64 `json:"seed"` // the data set is a pure function of (seed, n, dim, nq)
	Metric string `json:"metric"`
	N      int    `json:"n"`
	Dim    int    `json:"dim"`
	NQ     int    `json:"nq"`
}

func vfC15Gen(rt *rapid.T) vfC15Case {
	c := vfC15Case{N: 3000, Dim: 16, NQ: 100}
	c.Seed = rapid.Uint64().Draw(rt, "data_seed")
	c.Metric = "all"
	c.N = rapid.IntRange(2700, 3300).Draw(rt, "n")
	return c
}

func vfGaussianSet(seed uint64, n, dim int) [][]float32 {
	r := rand.New(rand.NewPCG(seed, seed^0x9e3779b97f4a7c15))
	out := make([][]float32, n)
	for i := range out {
		v := make([]float32, dim)
		for j := range v {
			v[j] = float32(r.NormFloat64())
		}
		out[i] = v
	}
	return out
}

// vfC15ID: ids are not in insertion order (multiplication by an odd constant permutes uint32)
func vfC15ID(i int) uint32 { return uint32(i+1) * 2654435761 }

// every data set is measured under all three metrics ("all"); a replay may name one
func vfC15Run(c vfC15Case, ctx *vfCtx) *vfViolation {
	if c.Metric != "all" && c.Metric != "" {
		return vfC15RunMetric(c, ctx)
	}
	for _, m := range vfMetrics {
		cm := c
		cm.Metric = string(m)
		if v := vfC15RunMetric(cm, ctx); v != nil {
			return v
		}
	}
	return nil
}

func vfC15RunMetric(c vfC15Case, ctx *vfCtx) *vfViolation {
	kind := DistanceKind(c.Metric)
	if c.N < 500 || c.Dim < 8 || c.Dim%8 != 0 || c.NQ < 10 {
		return nil // outside the stated distribution (hand-edited replay)
	}
	all := vfGaussianSet(c.Seed, c.N+c.NQ, c.Dim)
	data, queries := all[:c.N], all[c.N:]
	ctx.NonTrivial()
	ctx.Class("metric=" + c.Metric)

	flat, _ := NewFlatIndex(c.Dim, kind)
	m, efc, efs := DefaultHNSWConfig()
	hnsw, err := NewHNSWIndex(c.Dim, kind, m, efc, efs)
	if err != nil {
		return vfFail("NewHNSWIndex: %v", err)
	}
	// the documented other spelling of "default parameters": pass 0 for every tunable
	hnsw0, err := NewHNSWIndex(c.Dim, kind, 0, 0, 0)
	if err != nil {
		return vfFail("NewHNSWIndex(0,0,0): %v", err)
	}
	const nlistIVF, nlistIVFPQ = 54, 16
	ivf, err := NewIVFIndex(c.Dim, nlistIVF, kind)
	if err != nil {
		return vfFail("NewIVFIndex: %v", err)
	}
	pq, err := NewPQIndex(c.Dim, kind, 8, 8)
	if err != nil {
		return vfFail("NewPQIndex: %v", err)
	}
	ivfpq, err := NewIVFPQIndex(c.Dim, kind, nlistIVFPQ, 8, 8)
	if err != nil {
		return vfFail("NewIVFPQIndex: %v", err)
	}
	nodes := func() []VectorNode {
		out := make([]VectorNode, len(data))
		for i, v := range data {
			out[i] = *NewVectorNodeWithID(vfC15ID(i), vfCloneF32(v))
		}
		return out
	}
	type named struct {
		name string
		idx  VectorIndex
	}
	// a second IVF index is trained on a SAMPLE (the first third of the data) and then given everything:
	// whatever the training sample, probing all clusters is exact and insertion order does not matter
	ivfSample, err := NewIVFIndex(c.Dim, nlistIVF, kind)
	if err != nil {
		return vfFail("NewIVFIndex: %v", err)
	}
	sampleNodes := nodes()
	if err := ivfSample.Train(sampleNodes[:len(data)/3]); err != nil {
		return vfFail("ivf Train on a third of the data: %v", err)
	}
	kinds := []named{{"hnsw", hnsw}, {"hnsw0", hnsw0}, {"ivf", ivf}, {"pq", pq}, {"ivfpq", ivfpq}}
	// every index gets ONE set of nodes, used for Train and then for Add (the usual flow: the library sees
	// the same slices twice); the ground truth is computed from the pristine data by the flat index
	own := map[string][]VectorNode{}
	for _, k := range kinds {
		own[k.name] = nodes()
		if err := k.idx.Train(own[k.name]); err != nil {
			return vfFail("%s Train on %d vectors: %v", k.name, len(data), err)
		}
	}
	own["ivf(sample-trained)"] = sampleNodes
	for _, k := range append(kinds, named{"flat", flat}, named{"ivf(sample-trained)", ivfSample}) {
		ns := own[k.name]
		if ns == nil {
			ns = nodes()
		}
		for _, nd := range ns { // insertion order = generation order
			if err := k.idx.Add(nd); err != nil {
				return vfFail("%s Add: %v", k.name, err)
			}
		}
	}
	top := func(idx VectorIndex, q []float32, nprobes int) ([]uint32, error) {
		res, err := idx.NewSearch().WithQuery(vfCloneF32(q)).WithK(10).WithNProbes(nprobes).Execute()
		if err != nil {
			return nil, err
		}
		ids := make([]uint32, len(res))
		for i, r := range res {
			ids[i] = r.GetId()
		}
		return ids, nil
	}
	type cfg struct {
		name        string
		idx         VectorIndex
		nprobes     int
		floor       float64
		top1Floor   float64
		exactlyOne  bool
		orderClause bool
	}
	cfgs := []cfg{
		{"hnsw(default)", hnsw, 0, 0.9, 0, false, true},
		{"hnsw(0,0,0 = defaults)", hnsw0, 0, 0.9, 0, false, true},
		{"ivf(nprobes=sqrt(nlist)=7)", ivf, 7, 0.4, 0, false, true},
		{"ivf(full probe)", ivf, nlistIVF, 1.0, 0, true, false},
		{"ivf(trained on a third of the data, full probe)", ivfSample, nlistIVF, 1.0, 0, true, true},
		{"ivf(nprobes=0 = all clusters)", ivf, 0, 1.0, 0, true, false},
		{"pq(M=8,8 bits)", pq, 0, 0.5, 0.85, false, true},
		{"ivfpq(nlist=16,M=8,8 bits,full probe)", ivfpq, nlistIVFPQ, 0.5, 0.85, false, true},
		{"ivfpq(nlist=16,M=8,8 bits,nprobes=0 = all clusters)", ivfpq, 0, 0.5, 0.85, false, false},
	}
	exact := make([][]uint32, len(queries))
	// ids tied with the 10th exact neighbour (bit-equal score): any of them is a legitimate 10th
	tiedAtCut := make([]map[uint32]bool, len(queries))
	for qi, q := range queries {
		ids, err := top(flat, q, 0)
		if err != nil || len(ids) != 10 {
			return vfFail("exact search failed: %v (%d results)", err, len(ids))
		}
		exact[qi] = ids
		wide, err := flat.NewSearch().WithQuery(vfCloneF32(q)).WithK(24).Execute()
		if err == nil && len(wide) > 10 && wide[9].GetScore() == wide[10].GetScore() {
			tiedAtCut[qi] = map[uint32]bool{}
			for _, r := range wide {
				if r.GetScore() == wide[9].GetScore() {
					tiedAtCut[qi][r.GetId()] = true
				}
			}
			ctx.Class("exact_tie_at_rank_10")
		}
	}
	for _, cf := range cfgs {
		var inter, top1 int
		for qi, q := range queries {
			ids, err := top(cf.idx, q, cf.nprobes)
			if err != nil {
				return vfFail("%s search: %v", cf.name, err)
			}
			want := map[uint32]bool{}
			for _, id := range exact[qi] {
				want[id] = true
			}
			for _, id := range ids {
				if want[id] || tiedAtCut[qi][id] {
					inter++
				}
				if id == exact[qi][0] {
					top1++
				}
			}
		}
		recall := float64(inter) / float64(10*len(queries))
		t1 := float64(top1) / float64(len(queries))
		ctx.Stat("recall@10 "+cf.name+" "+c.Metric, recall)
		if cf.top1Floor > 0 {
			ctx.Stat("true-NN-in-top10 "+cf.name+" "+c.Metric, t1)
		}
		if cf.exactlyOne && recall != 1.0 {
			return vfFail("%s %s: recall@10 = %.4f, must be exactly 1.0 (n=%d seed=%d)", cf.name, c.Metric, recall, c.N, c.Seed)
		}
		if recall < cf.floor {
			return vfFail("%s %s: recall@10 = %.4f below the floor %.2f (n=%d dim=%d seed=%d)", cf.name, c.Metric, recall, cf.floor, c.N, c.Dim, c.Seed)
		}
		if cf.top1Floor > 0 && t1 < cf.top1Floor {
			return vfFail("%s %s: true nearest neighbour in the top 10 for %.2f of the queries, floor %.2f (seed=%d)", cf.name, c.Metric, t1, cf.top1Floor, c.Seed)
		}
		if cf.orderClause {
			tenth := c.N / 10
			hit := func(from, to int) (float64, error) {
				h := 0
				for i := from; i < to; i++ {
					ids, err := top(cf.idx, data[i], cf.nprobes)
					if err != nil {
						return 0, err
					}
					for _, id := range ids {
						if id == vfC15ID(i) {
							h++
							break
						}
					}
				}
				return float64(h) / float64(to-from), nil
			}
			first, err := hit(0, tenth)
			if err != nil {
				return vfFail("%s self-query: %v", cf.name, err)
			}
			last, err := hit(c.N-tenth, c.N)
			if err != nil {
				return vfFail("%s self-query: %v", cf.name, err)
			}
			ctx.Stat("self-hit first tenth "+cf.name+" "+c.Metric, first)
			ctx.Stat("self-hit last tenth "+cf.name+" "+c.Metric, last)
			if d := first - last; d > 0.1 || d < -0.1 {
				return vfFail("%s %s: the first inserted tenth is found with rate %.3f, the last inserted tenth with %.3f (difference above 0.1; seed=%d)", cf.name, c.Metric, first, last, c.Seed)
			}
		}
	}
	ctx.Notef("%s", fmt.Sprintf("case seed=%d metric=%s n=%d", c.Seed, c.Metric, c.N))
	return nil
}

func TestVerif_C15(t *testing.T) { vfCheck(t, "C15", vfC15Gen, vfC15Run) }
