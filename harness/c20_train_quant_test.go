package comet

// C20 — training and quantisation are deterministic, in-range and error-bounded.
// Oracle: validity predicates on k-means output, determinism by re-execution,
// black-box convergence test (maxIter T vs T+1), round-trip error bounds.

import (
	"math"
	"runtime"
	"testing"

	"pgregory.net/rapid"
)

type vfQuantRound struct {
	Train  [][]float32 `json:"train,omitempty"`   // Train(...) when non-nil
	AbsMax float32     `json:"abs_max,omitempty"` // SetAbsMax when > 0 (and Train empty)
	Frac   []float64   `json:"frac"`              // values to round-trip, as fractions of absMax in [-1,1]
}

type vfC20Case struct {
	Metric  string      `json:"metric"`
	Vectors [][]float32 `json:"vectors"`
	K       int         `json:"k"`
	MaxIter int         `json:"max_iter"`
	// index-level determinism
	IndexKind string      `json:"index_kind"` // ivf | pq | ivfpq
	NList     int         `json:"nlist"`
	M         int         `json:"m"`
	NBits     int         `json:"nbits"`
	Queries   [][]float32 `json:"queries"`
	// quantisers
	Half   []float32      `json:"half"`
	Rounds []vfQuantRound `json:"rounds"`
}

func vfC20Gen(rt *rapid.T) vfC20Case {
	c := vfC20Case{}
	c.Metric = string(rapid.SampledFrom(vfMetrics).Draw(rt, "metric"))
	// dimension must be divisible by M for the index clause
	c.M = rapid.IntRange(1, 4).Draw(rt, "m")
	dsub := rapid.IntRange(1, 4).Draw(rt, "dsub")
	if rapid.IntRange(0, 9).Draw(rt, "bigdim") == 0 {
		dsub = rapid.IntRange(5, 8).Draw(rt, "dsub_big")
	}
	dim := c.M * dsub
	var n int
	switch rapid.IntRange(0, 9).Draw(rt, "nclass") {
	case 0, 1, 2:
		n = rapid.IntRange(1, 8).Draw(rt, "n")
	case 3, 4, 5, 6:
		n = rapid.IntRange(9, 60).Draw(rt, "n")
	case 7, 8:
		n = rapid.IntRange(61, 200).Draw(rt, "n")
	default:
		n = rapid.IntRange(201, 500).Draw(rt, "n")
	}
	shape := rapid.SampledFrom([]string{"free", "few_distinct", "all_equal", "collinear", "grid", "antipodal"}).Draw(rt, "shape")
	g := vfNewVecGen(rt, dim)
	var distinct [][]float32
	nd := rapid.IntRange(1, 4).Draw(rt, "ndistinct")
	for i := 0; i < nd; i++ {
		distinct = append(distinct, g.drawNonZero(rt, "d"))
	}
	dir := g.drawNonZero(rt, "dir")
	for i := 0; i < n; i++ {
		var v []float32
		switch shape {
		case "free":
			v = g.drawNonZero(rt, "v")
		case "few_distinct":
			v = vfCloneF32(distinct[rapid.IntRange(0, len(distinct)-1).Draw(rt, "which")])
		case "all_equal":
			v = vfCloneF32(distinct[0])
		case "collinear":
			t := float32(rapid.IntRange(1, 12).Draw(rt, "t"))
			v = make([]float32, dim)
			for j := range v {
				v[j] = dir[j] * t
			}
		case "antipodal":
			// pairs v, -v (their mean is the zero vector) and, off the cosine metric, the zero vector itself
			v = vfCloneF32(distinct[i%len(distinct)])
			if i%2 == 1 {
				for j := range v {
					v[j] = -v[j]
				}
			}
			if i%5 == 4 && c.Metric != string(Cosine) {
				v = make([]float32, dim)
			}
		case "grid":
			v = make([]float32, dim)
			for j := range v {
				v[j] = float32(rapid.IntRange(-2, 2).Draw(rt, "gv"))
			}
			if vfIsZero(v) {
				v[0] = 1
			}
		}
		c.Vectors = append(c.Vectors, v)
	}
	c.K = rapid.IntRange(-1, n+3).Draw(rt, "k")
	if rapid.Bool().Draw(rt, "small_k") {
		c.K = rapid.IntRange(1, 8).Draw(rt, "k_small")
	}
	c.MaxIter = rapid.IntRange(-1, 25).Draw(rt, "max_iter")
	// "k and maxIter in Z": far outside the sensible range as well (they are not sizes to allocate)
	switch rapid.IntRange(0, 29).Draw(rt, "extreme_parameters") {
	case 0:
		c.K = rapid.SampledFrom([]int{math.MaxInt32, math.MaxInt64, math.MinInt64, 1 << 40, -(1 << 40)}).Draw(rt, "k_extreme")
	case 1:
		// (huge positive iteration limits are not generated: a run that has not converged - float32
		// k-means can cycle - would legitimately use them up)
		c.MaxIter = rapid.SampledFrom([]int{math.MinInt64, math.MinInt32, -(1 << 40), 1000}).Draw(rt, "max_iter_extreme")
	}

	c.IndexKind = rapid.SampledFrom([]string{"ivf", "pq", "ivfpq"}).Draw(rt, "index_kind")
	c.NList = rapid.IntRange(1, 6).Draw(rt, "nlist")
	c.NBits = rapid.IntRange(1, 4).Draw(rt, "nbits")
	nq := rapid.IntRange(1, 3).Draw(rt, "nq")
	for i := 0; i < nq; i++ {
		c.Queries = append(c.Queries, g.drawNonZero(rt, "q"))
	}

	// half precision: values in the float16 normal range (or zero)
	nh := rapid.IntRange(0, 12).Draw(rt, "n_half")
	for i := 0; i < nh; i++ {
		var x float64
		switch rapid.IntRange(0, 5).Draw(rt, "half_class") {
		case 0:
			x = 0
		case 1:
			x = rapid.SampledFrom([]float64{65504, -65504, 6.104e-5, -6.104e-5, 1, -1, 0.333251953125, 2049, 2051}).Draw(rt, "half_edge")
		case 2:
			x = rapid.Float64Range(6.2e-5, 1).Draw(rt, "half_small")
		default:
			x = rapid.Float64Range(-65000, 65000).Draw(rt, "half")
			if math.Abs(x) < 6.2e-5 {
				x = 0
			}
		}
		c.Half = append(c.Half, float32(x))
	}
	// int8: a few rounds of (re)training on one quantiser instance
	nr := rapid.IntRange(1, 3).Draw(rt, "n_rounds")
	for r := 0; r < nr; r++ {
		var rd vfQuantRound
		if rapid.IntRange(0, 3).Draw(rt, "round_kind") == 0 {
			rd.AbsMax = float32(rapid.SampledFrom([]float64{1, 0.001, 100, 12.7, 3.3e4}).Draw(rt, "absmax"))
		} else {
			nv := rapid.IntRange(1, 3).Draw(rt, "n_train")
			sc := rapid.SampledFrom([]float64{1e-3, 1, 37.5, 1e4}).Draw(rt, "train_scale")
			for i := 0; i < nv; i++ {
				v := make([]float32, rapid.IntRange(1, 4).Draw(rt, "train_len"))
				for j := range v {
					v[j] = float32(sc * vfSnap(rapid.Float64Range(-1, 1).Draw(rt, "train_val"))) // no float32 subnormals
				}
				rd.Train = append(rd.Train, v)
			}
		}
		nf := rapid.IntRange(1, 8).Draw(rt, "n_frac")
		for i := 0; i < nf; i++ {
			switch rapid.IntRange(0, 4).Draw(rt, "frac_class") {
			case 0:
				rd.Frac = append(rd.Frac, rapid.SampledFrom([]float64{1, -1, 0, 0.5, -0.5, 1.0 / 254, 3.0 / 254, 0.4}).Draw(rt, "frac_edge"))
			default:
				rd.Frac = append(rd.Frac, rapid.Float64Range(-1, 1).Draw(rt, "frac"))
			}
		}
		c.Rounds = append(c.Rounds, rd)
	}
	return c
}

func vfClone2D(v [][]float32) [][]float32 {
	out := make([][]float32, len(v))
	for i := range v {
		out[i] = vfCloneF32(v[i])
	}
	return out
}

func vfEqual2D(a, b [][]float32) bool {
	if len(a) != len(b) {
		return false
	}
	for i := range a {
		if !vfBitsEqual(a[i], b[i]) {
			return false
		}
	}
	return true
}

func vfIntsEqual(a, b []int) bool {
	if len(a) != len(b) {
		return false
	}
	for i := range a {
		if a[i] != b[i] {
			return false
		}
	}
	return true
}

func vfC20Run(c vfC20Case, ctx *vfCtx) *vfViolation {
	kind := DistanceKind(c.Metric)
	dist, err := NewDistance(kind)
	if err != nil {
		return vfFail("NewDistance: %v", err)
	}
	n := len(c.Vectors)
	if n == 0 {
		return nil
	}
	dim := len(c.Vectors[0])
	distinctPts := map[string]bool{}
	for _, v := range c.Vectors {
		distinctPts[vfHash([]byte(vfKeyOf(v)))] = true
	}
	if n > c.K && c.K >= 2 && len(distinctPts) >= 2 {
		ctx.NonTrivial()
	}
	ctx.ClassIf(c.K > n, "k>n")
	ctx.ClassIf(c.K == n, "k==n")
	ctx.ClassIf(c.K <= 0, "k<=0")
	ctx.ClassIf(c.K > len(distinctPts) && c.K <= n, "k>distinct_points(empty clusters)")
	ctx.Class("metric=" + c.Metric)

	// ---- k-means --------------------------------------------------------------------
	orig := vfClone2D(c.Vectors)
	wantK := c.K
	if wantK > n {
		wantK = n
	}
	// every clause of the k-means statement, for one entry point (KMeans itself, and KMeansSubspace,
	// the squared-Euclidean variant used for PQ codebooks)
	// "nearest": the float64 distance for the Euclidean family (squared or not, same order); for cosine
	// the library's own 1 - dot, since centroids are means and not unit vectors
	refDist := func(v, ce []float32) float64 {
		if kind == Cosine {
			return float64(dist.Calculate(v, ce))
		}
		d := vfRefL2Sq(v, ce)
		if kind == Euclidean {
			d = math.Sqrt(d)
		}
		return d
	}
	checkKMeans := func(name string, distOf Distance, run func(vs [][]float32, maxIter int) ([][]float32, []int)) ([][]float32, []int, *vfViolation) {
		cents, mapping := run(c.Vectors, c.MaxIter)
		if !vfEqual2D(c.Vectors, orig) {
			return nil, nil, vfFail("%s modified its input", name)
		}
		if c.K <= 0 {
			if len(cents) != 0 {
				return nil, nil, vfFail("%s(k=%d) returned %d centroids, want none", name, c.K, len(cents))
			}
			return cents, mapping, nil
		}
		if len(cents) != wantK {
			return nil, nil, vfFail("%s(n=%d,k=%d) returned %d centroids, want %d", name, n, c.K, len(cents), wantK)
		}
		if len(mapping) != n {
			return nil, nil, vfFail("%s returned a mapping of length %d for %d vectors", name, len(mapping), n)
		}
		lo, hi := make([]float64, dim), make([]float64, dim)
		var maxAbs float64
		for d := 0; d < dim; d++ {
			lo[d], hi[d] = math.Inf(1), math.Inf(-1)
			for _, v := range c.Vectors {
				x := float64(v[d])
				lo[d], hi[d] = math.Min(lo[d], x), math.Max(hi[d], x)
				maxAbs = math.Max(maxAbs, math.Abs(x))
			}
		}
		slack := float64(n) * 2 * vfEps32 * maxAbs
		for ci, ce := range cents {
			if len(ce) != dim {
				return nil, nil, vfFail("%s: centroid %d has %d coordinates, want %d", name, ci, len(ce), dim)
			}
			for d, x := range ce {
				if math.IsNaN(float64(x)) || math.IsInf(float64(x), 0) {
					return nil, nil, vfFail("%s: centroid %d coordinate %d is %v", name, ci, d, x)
				}
				if kind != Cosine && (float64(x) < lo[d]-slack || float64(x) > hi[d]+slack) {
					return nil, nil, vfFail("%s: centroid %d coordinate %d = %v lies outside the bounding box [%v,%v] of the training vectors", name, ci, d, x, lo[d], hi[d])
				}
			}
		}
		for i, m := range mapping {
			if m < 0 || m >= len(cents) {
				return nil, nil, vfFail("%s: vector %d is mapped to cluster %d (have %d centroids)", name, i, m, len(cents))
			}
		}
		// determinism
		cents2, mapping2 := run(vfClone2D(c.Vectors), c.MaxIter)
		if !vfEqual2D(cents, cents2) || !vfIntsEqual(mapping, mapping2) {
			return nil, nil, vfFail("%s is not deterministic: two runs on equal input differ", name)
		}
		// converged => every vector sits with a nearest centroid. Convergence is detected
		// black-box: the outputs for maxIter=T and T+1 are identical.
		T := c.MaxIter
		if T <= 0 {
			T = DefaultMaxIter
		}
		centsN, mappingN := run(vfClone2D(c.Vectors), T+1)
		if vfEqual2D(cents, centsN) && vfIntsEqual(mapping, mappingN) {
			ctx.Class(name + "_converged")
			for i, v := range c.Vectors {
				own := refDist(v, cents[mapping[i]])
				for ci := range cents {
					d := refDist(v, cents[ci])
					tol := 8 * float64(dim+4) * vfEps32 * (math.Abs(d) + math.Abs(own) + 1e-30)
					if d+tol < own {
						return nil, nil, vfFail("%s: converged run (maxIter %d == %d), but vector %d sits in cluster %d at distance %v while centroid %d is at %v", name, T, T+1, i, mapping[i], own, ci, d)
					}
				}
			}
		} else {
			ctx.Class(name + "_not_converged")
		}
		return cents, mapping, nil
	}
	cents, mapping0, v := checkKMeans("KMeans", dist, func(vs [][]float32, maxIter int) ([][]float32, []int) { return KMeans(vs, c.K, dist, maxIter) })
	if v != nil {
		return v
	}
	// "identical output for identical input" also when the process has another number of processors at
	// its disposal (one case in eight; float32 sums must not depend on how work is split)
	if c.K > 0 && (len(c.Vectors)+c.K)%8 == 0 {
		prev := runtime.GOMAXPROCS(0)
		other := 1
		if prev == 1 {
			other = 3
		}
		runtime.GOMAXPROCS(other)
		c1, m1 := KMeans(vfClone2D(c.Vectors), c.K, dist, c.MaxIter)
		runtime.GOMAXPROCS(prev)
		if !vfEqual2D(cents, c1) || !vfIntsEqual(mapping0, m1) {
			return vfFail("KMeans returns different output for identical input under GOMAXPROCS=%d and GOMAXPROCS=%d", prev, other)
		}
		ctx.Class("kmeans_compared_across_GOMAXPROCS")
	}
	if kind == L2Squared {
		if _, _, v := checkKMeans("KMeansSubspace", dist, func(vs [][]float32, maxIter int) ([][]float32, []int) { return KMeansSubspace(vs, c.K, maxIter) }); v != nil {
			return v
		}
	}
	if c.K > 0 {
		// FindNearestCentroidIndex returns an arg-min
		for qi, q := range c.Queries {
			got := FindNearestCentroidIndex(q, cents, dist)
			if got < 0 || got >= len(cents) {
				return vfFail("FindNearestCentroidIndex returned %d of %d", got, len(cents))
			}
			own := dist.Calculate(q, cents[got])
			for ci := range cents {
				if dist.Calculate(q, cents[ci]) < own {
					return vfFail("FindNearestCentroidIndex(query %d) = %d at %v but centroid %d is nearer", qi, got, own, ci)
				}
			}
		}
	}
	if ce, _ := KMeans(nil, 3, dist, 5); len(ce) != 0 {
		return vfFail("KMeans on no vectors returned %d centroids", len(ce))
	}

	// ---- training an index twice gives search-identical indexes ---------------------
	build := func(twice bool) (VectorIndex, error, error) {
		var idx VectorIndex
		var err error
		switch c.IndexKind {
		case "ivf":
			idx, err = NewIVFIndex(dim, c.NList, kind)
		case "pq":
			idx, err = NewPQIndex(dim, kind, c.M, c.NBits)
		default:
			idx, err = NewIVFPQIndex(dim, kind, c.NList, c.M, c.NBits)
		}
		if err != nil {
			return nil, err, nil
		}
		train := make([]VectorNode, n)
		for i, v := range c.Vectors {
			train[i] = *NewVectorNodeWithID(uint32(i+1), vfCloneF32(v))
		}
		if err := idx.Train(train); err != nil {
			return idx, nil, err
		}
		if twice {
			// the same OBJECT trained again on the same data: nothing of the first run may carry over
			again := make([]VectorNode, n)
			for i, v := range c.Vectors {
				again[i] = *NewVectorNodeWithID(uint32(i+1), vfCloneF32(v))
			}
			if err := idx.Train(again); err != nil {
				return idx, nil, err
			}
			ctx.Class("index_object_trained_twice")
		}
		for i, v := range c.Vectors {
			if err := idx.Add(*NewVectorNodeWithID(uint32(i+1), vfCloneF32(v))); err != nil {
				return idx, nil, err
			}
		}
		return idx, nil, nil
	}
	if dim%c.M == 0 {
		a, errA, trainA := build(false)
		b, errB, trainB := build(n%2 == 0)
		if errA != nil || errB != nil {
			return vfFail("constructor of %s failed: %v / %v", c.IndexKind, errA, errB)
		}
		if (trainA == nil) != (trainB == nil) {
			return vfFail("%s: training twice on the same data: one run failed (%v), the other did not (%v)", c.IndexKind, trainA, trainB)
		}
		if trainA == nil {
			ctx.Class("index_determinism_checked=" + c.IndexKind)
			for qi, q := range c.Queries {
				for _, np := range []int{0, 1} {
					ra, ea := a.NewSearch().WithQuery(vfCloneF32(q)).WithK(n).WithNProbes(np).Execute()
					rb, eb := b.NewSearch().WithQuery(vfCloneF32(q)).WithK(n).WithNProbes(np).Execute()
					if (ea == nil) != (eb == nil) {
						return vfFail("%s: query %d: one index errs (%v), its twin does not (%v)", c.IndexKind, qi, ea, eb)
					}
					if len(ra) != len(rb) {
						return vfFail("%s: query %d nprobes=%d: twin indexes return %d vs %d results", c.IndexKind, qi, np, len(ra), len(rb))
					}
					// same id -> score mapping, same score sequence (order inside exact ties is arbitrary)
					ma := map[uint32]float32{}
					for _, r := range ra {
						ma[r.GetId()] = r.GetScore()
					}
					for i, r := range rb {
						if s, ok := ma[r.GetId()]; !ok || math.Float32bits(s) != math.Float32bits(r.GetScore()) {
							return vfFail("%s: query %d nprobes=%d: twin indexes disagree on id %d (%v vs %v, present=%v)", c.IndexKind, qi, np, r.GetId(), s, r.GetScore(), ok)
						}
						if math.Float32bits(ra[i].GetScore()) != math.Float32bits(r.GetScore()) {
							return vfFail("%s: query %d: twin indexes disagree on the score at rank %d", c.IndexKind, qi, i)
						}
					}
				}
			}
		} else {
			ctx.Class("index_training_rejected")
		}
	}

	// ---- quantisers ---------------------------------------------------------------
	for _, v := range c.Vectors[:vfMinInt(n, 3)] {
		fq, err := NewQuantizer(FullPrecision)
		if err != nil {
			return vfFail("NewQuantizer(float32): %v", err)
		}
		in := vfCloneF32(v)
		st, err := fq.Quantize(in)
		if err != nil {
			return vfFail("float32 Quantize: %v", err)
		}
		out, err := fq.Dequantize(st)
		if err != nil {
			return vfFail("float32 Dequantize: %v", err)
		}
		if !vfBitsEqual(out, v) || !vfBitsEqual(in, v) {
			return vfFail("float32 quantiser does not round-trip exactly / modified its input")
		}
	}
	if len(c.Half) > 0 {
		hq, err := NewQuantizer(HalfPrecision)
		if err != nil {
			return vfFail("NewQuantizer(float16): %v", err)
		}
		in := vfCloneF32(c.Half)
		st, err := hq.Quantize(in)
		if err != nil {
			return vfFail("float16 Quantize: %v", err)
		}
		out, err := hq.Dequantize(st)
		if err != nil {
			return vfFail("float16 Dequantize: %v", err)
		}
		if !vfBitsEqual(in, c.Half) {
			return vfFail("float16 quantiser modified its input")
		}
		if len(out) != len(c.Half) {
			return vfFail("float16 quantiser changed the length: %d -> %d", len(c.Half), len(out))
		}
		// a reconstruction stays what it is when the quantiser is used again
		keep := vfCloneF32(out)
		if st2, err := hq.Quantize([]float32{1, -2, 60000, 0.5}); err == nil {
			hq.Dequantize(st2)
		}
		if !vfBitsEqual(out, keep) {
			return vfFail("float16: a reconstruction returned by Dequantize changed when the quantiser was used again (%v -> %v)", keep, out)
		}
		for i, x := range c.Half {
			if math.Abs(float64(out[i])-float64(x)) > math.Abs(float64(x))/2048 {
				return vfFail("float16 round trip of %v gives %v (more than half an ulp of half precision)", x, out[i])
			}
		}
		ctx.ClassIf(len(c.Half) >= 2, "half_precision_round_trip")
	}
	if q, err := NewQuantizer(Int8Precision); err != nil || q == nil {
		return vfFail("NewQuantizer(int8): %v", err)
	} else if _, err := q.Quantize([]float32{0.5}); err == nil {
		return vfFail("an int8 quantiser from NewQuantizer quantises before training")
	}
	// two quantisers from the factory are independent: training one neither trains the other nor
	// changes a range the other was trained with
	if qa, _ := NewQuantizer(Int8Precision); qa != nil {
		qb, _ := NewQuantizer(Int8Precision)
		a8, okA := qa.(*Int8Quantizer)
		b8, okB := qb.(*Int8Quantizer)
		if okA && okB {
			a8.Train([][]float32{{4}})
			if _, err := b8.Quantize([]float32{0.5}); err == nil {
				return vfFail("an int8 quantiser fresh from NewQuantizer quantises after ANOTHER quantiser was trained")
			}
			b8.Train([][]float32{{1000}})
			st, err := a8.Quantize([]float32{4, -2, 1})
			if err != nil {
				return vfFail("int8 Quantize: %v", err)
			}
			out, err := a8.Dequantize(st)
			if err != nil || len(out) != 3 {
				return vfFail("int8 Dequantize: %v (%d values)", err, len(out))
			}
			for i, want := range []float64{4, -2, 1} {
				if math.Abs(float64(out[i])-want) > 4.0/254+1e-5 {
					return vfFail("int8 quantiser trained on range 4 reconstructs %v as %v after another quantiser was trained on range 1000", want, out[i])
				}
			}
		}
	}
	q8 := &Int8Quantizer{}
	if q8.IsTrained() {
		return vfFail("fresh int8 quantiser claims to be trained")
	}
	if _, err := q8.Quantize([]float32{0.5}); err == nil {
		return vfFail("int8 Quantize worked before training")
	}
	if _, err := q8.Dequantize([]int8{1}); err == nil {
		return vfFail("int8 Dequantize worked before training")
	}
	for ri, rd := range c.Rounds {
		if len(rd.Train) > 0 {
			tr := vfClone2D(rd.Train)
			q8.Train(tr)
			if !vfEqual2D(tr, rd.Train) {
				return vfFail("int8 Train modified its input")
			}
			var want float32
			for _, v := range rd.Train {
				for _, x := range v {
					if a := float32(math.Abs(float64(x))); a > want {
						want = a
					}
				}
			}
			// the trained range must cover the training data (how much wider it is is not stated)
			if got := q8.GetAbsMax(); got < want || math.IsNaN(float64(got)) || math.IsInf(float64(got), 0) {
				return vfFail("int8 Train: absMax %v does not cover the training data (largest magnitude %v)", got, want)
			}
		} else if rd.AbsMax > 0 {
			q8.SetAbsMax(rd.AbsMax)
		}
		am := float64(q8.GetAbsMax())
		if am == 0 {
			continue // trained on zeros only: no value range to check (refusing or mapping 0 to 0 are both fine)
		}
		in := make([]float32, len(rd.Frac))
		for i, f := range rd.Frac {
			x := float32(f * am)
			if math.Abs(float64(x)) > am {
				x = float32(math.Copysign(am, f))
			}
			in[i] = x
		}
		in0 := vfCloneF32(in)
		st, err := q8.Quantize(in)
		if err != nil {
			return vfFail("int8 Quantize after training: %v", err)
		}
		out, err := q8.Dequantize(st)
		if err != nil {
			return vfFail("int8 Dequantize: %v", err)
		}
		if !vfBitsEqual(in, in0) {
			return vfFail("int8 quantiser modified its input")
		}
		if len(out) != len(in) {
			return vfFail("int8 quantiser changed the length")
		}
		keep8 := vfCloneF32(out)
		if st2, err := q8.Quantize([]float32{float32(am), 0, float32(-am / 2)}); err == nil {
			q8.Dequantize(st2)
		}
		if !vfBitsEqual(out, keep8) {
			return vfFail("int8: a reconstruction returned by Dequantize changed when the quantiser was used again")
		}
		for i := range in {
			if math.Abs(float64(out[i])-float64(in[i])) > am/254+8*vfEps32*am {
				return vfFail("int8 round %d: %v -> %v, error above absMax/254 = %v (absMax %v)", ri, in[i], out[i], am/254, am)
			}
		}
		ctx.ClassIf(ri > 0, "int8_retrained_instance")
	}
	return nil
}

func vfMinInt(a, b int) int {
	if a < b {
		return a
	}
	return b
}

func vfKeyOf(v []float32) string {
	b := make([]byte, 0, len(v)*4)
	for _, x := range v {
		u := math.Float32bits(x)
		b = append(b, byte(u), byte(u>>8), byte(u>>16), byte(u>>24))
	}
	return string(b)
}

func TestVerif_C20(t *testing.T) { vfCheck(t, "C20", vfC20Gen, vfC20Run) }
