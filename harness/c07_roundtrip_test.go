package comet

// C07 — serialising and reloading any index preserves every search answer.
// Oracle: round trip (battery on source vs reloaded), byte accounting, sentinel after the
// stream, lock-step continuation of source and reloaded twin.

import (
	"bytes"
	"fmt"
	"io"
	"sort"
	"testing"

	"pgregory.net/rapid"
)

func vfC07Gen(rt *rapid.T) vfSerCase { return vfSerGen(rt, vfSerKinds) }

var vfSentinel = []byte("\xde\xad\xbe\xefSENTINEL-after-the-stream")

// vfOnlyReader hides every method of the underlying reader except Read (no ReadByte etc.).
type vfOnlyReader struct{ r io.Reader }

func (o *vfOnlyReader) Read(p []byte) (int, error) { return o.r.Read(p) }

func vfC07Run(c vfSerCase, ctx *vfCtx) *vfViolation {
	src, err := vfSerNew(&c, true)
	if err != nil {
		return vfFail("building a %s: %v", c.Kind, err)
	}
	ctx.Class("kind=" + c.Kind)
	src.applyHistory()
	const maxBattery = 8
	// WriteTo starts with Flush, and C03 states that BM25 statistics (N, df, average length) change
	// at a flush; so for the kinds that contain a text index "writing changes nothing" is checked
	// relative to the flushed state.
	if c.Kind == "bm25" {
		src.bm.Flush()
	} else if c.Kind == "hybrid" {
		src.hy.Flush()
	}
	before := src.battery(maxBattery)
	nRemovedBefore := len(src.gone)

	nLiveAtWrite := len(src.live)
	stream, reported, parts, err := src.write()
	if err != nil {
		return vfFail("%s WriteTo failed: %v", c.Kind, err)
	}
	if reported != int64(len(stream)) {
		return vfFail("%s WriteTo reported %d bytes but wrote %d", c.Kind, reported, len(stream))
	}
	afterWrite := src.battery(maxBattery)
	approxHNSW := c.Kind == "hnsw" && c.Vec.M < 32
	ctx.ClassIf(approxHNSW, "hnsw_approximate_regime")
	if ok, why := vfBatteriesEqual(before, afterWrite); !ok && !approxHNSW {
		return vfFail("%s: writing changed what the SOURCE index returns: %s", c.Kind, why)
	}
	// a second write produces a stream of the same length (content may differ in map order)
	stream2, _, _, err := src.write()
	if err != nil || len(stream2) != len(stream) {
		return vfFail("%s: a second WriteTo produced %d bytes (first: %d), err %v", c.Kind, len(stream2), len(stream), err)
	}

	// read into a freshly constructed object, stream followed by a sentinel
	dst, err := vfSerNew(&c, false)
	if err != nil {
		return vfFail("constructing the receiver: %v", err)
	}
	rd := bytes.NewReader(append(append([]byte{}, stream...), vfSentinel...))
	var in io.Reader = rd
	if len(stream)%2 == 1 {
		in = &vfOnlyReader{rd} // a reader that offers nothing but Read
	}
	in = vfMaybeChunked(in, c.Chunk)
	ctx.ClassIf(c.Chunk > 0, "reader_with_short_reads")
	n, err := dst.read(in)
	if err != nil {
		return vfFail("%s: ReadFrom of its own stream (%d bytes) failed: %v", c.Kind, len(stream), err)
	}
	if n != int64(len(stream)) {
		return vfFail("%s: ReadFrom reported %d bytes, the stream has %d", c.Kind, n, len(stream))
	}
	rest, _ := io.ReadAll(rd)
	if !bytes.Equal(rest, vfSentinel) {
		return vfFail("%s: ReadFrom consumed %d bytes beyond its own stream (%d bytes of the %d-byte sentinel are left)", c.Kind, len(vfSentinel)-len(rest), len(rest), len(vfSentinel))
	}
	dst.live, dst.gone, dst.addIDs = map[uint32]bool{}, map[uint32]bool{}, append([]uint32{}, src.addIDs...)
	for id := range src.live {
		dst.live[id] = true
	}
	for id := range src.gone {
		dst.gone[id] = true
	}
	reloaded := dst.battery(maxBattery)
	if ok, why := vfBatteriesEqual(afterWrite, reloaded); !ok {
		return vfFail("%s: the reloaded index answers differently from the source: %s", c.Kind, why)
	}
	// removed documents are absent from the stream: the reloaded index does not know them
	for id := range src.gone {
		switch c.Kind {
		case "flat", "hnsw", "ivf", "pq", "ivfpq":
			if err := dst.ut.idx.Remove(*NewVectorNodeWithID(id, nil)); err == nil {
				return vfFail("%s: id %d was removed before the write but the reloaded index still holds it (Remove succeeded)", c.Kind, id)
			}
		case "hybrid":
			if err := dst.hy.Remove(id); err == nil {
				return vfFail("hybrid: id %d was removed before the write but the reloaded index still knows it", id)
			}
		}
	}
	// hybrid: vector ‖ text ‖ metadata decode back-to-back from one reader
	if c.Kind == "hybrid" {
		twin, err := vfSerNew(&c, false)
		if err != nil {
			return vfFail("constructing the receiver: %v", err)
		}
		rd := bytes.NewReader(append(append(append(append([]byte{}, parts[1]...), parts[2]...), parts[3]...), vfSentinel...))
		type rf interface {
			ReadFrom(io.Reader) (int64, error)
		}
		for i, sub := range []interface{}{twin.hvi, twin.hti, twin.hmi} {
			r, ok := sub.(rf)
			if !ok || sub == nil || len(parts[i+1]) == 0 {
				continue
			}
			n, err := r.ReadFrom(vfMaybeChunked(rd, c.Chunk))
			if err != nil || n != int64(len(parts[i+1])) {
				return vfFail("hybrid: sub-index %d read back-to-back from one reader: n=%d (stream %d), err %v", i, n, len(parts[i+1]), err)
			}
		}
		rest, _ := io.ReadAll(rd)
		if !bytes.Equal(rest, vfSentinel) {
			return vfFail("hybrid: the three sub-index streams read back-to-back consumed %d bytes too many", len(vfSentinel)-len(rest))
		}
		ctx.Class("hybrid_back_to_back")
	}

	if c.Kind == "hnsw" {
		// the reloaded graph is the source graph: same entry point, levels and layer-0 adjacency
		a, b := vfHNSWSnapOf(src.ut.idx.(*HNSWIndex)), vfHNSWSnapOf(dst.ut.idx.(*HNSWIndex))
		if a.Entry != b.Entry || a.MaxLevel != b.MaxLevel || len(a.Adj0) != len(b.Adj0) {
			return vfFail("hnsw: reloaded graph differs: entry point %d vs %d, max level %d vs %d, %d vs %d vertices", a.Entry, b.Entry, a.MaxLevel, b.MaxLevel, len(a.Adj0), len(b.Adj0))
		}
		for id, adj := range a.Adj0 {
			// as sets: the order inside a neighbour list is not observable through searches' id sets
			sa, sb := append([]uint32{}, adj...), append([]uint32{}, b.Adj0[id]...)
			sort.Slice(sa, func(i, j int) bool { return sa[i] < sa[j] })
			sort.Slice(sb, func(i, j int) bool { return sb[i] < sb[j] })
			if fmt.Sprint(sa) != fmt.Sprint(sb) || a.Level[id] != b.Level[id] {
				return vfFail("hnsw: reloaded vertex %d differs: level %d vs %d, layer-0 edges %v vs %v", id, a.Level[id], b.Level[id], adj, b.Adj0[id])
			}
		}
	}
	// continuation: source and reloaded twin stay in agreement under further adds / removals
	for i := 0; i < 12; i++ {
		if approxHNSW && i < len(c.ContVec) && (c.ContVec[i].Op == "add" || c.ContVec[i].Op == "add_bad" || c.ContVec[i].Op == "flush") {
			continue // random levels / graph surgery make the two graphs diverge legitimately
		}
		if c.Kind == "hybrid" && c.Hyb != nil && c.Hyb.HasVec && c.Hyb.VecKind == "hnsw" && i < len(c.ContHyb) && c.ContHyb[i].Op == "flush" {
			continue // see the mid-sweep flush below: a Flush may re-elect different entry points in the two copies
		}
		if !src.applyCont(i) {
			break
		}
		dst.applyCont(i)
		if fmt.Sprint(vfSortedU32Bool(src.live)) != fmt.Sprint(vfSortedU32Bool(dst.live)) {
			return vfFail("%s: continuation op %d is accepted differently by the source and the reloaded index (live ids %v vs %v)", c.Kind, i, vfSortedU32Bool(src.live), vfSortedU32Bool(dst.live))
		}
		a, b := src.battery(maxBattery), dst.battery(maxBattery)
		if ok, why := vfBatteriesEqual(a, b); !ok {
			return vfFail("%s: after continuation op %d the reloaded index answers differently from the source: %s", c.Kind, i, why)
		}
	}
	// final sweep: the reloaded index accepts removals exactly like the source - every live document
	// is removed from both in lock step, with a full scan through every modality after each removal
	if ok, why := vfBatteriesEqual(src.fullScan(), dst.fullScan()); !ok && !approxHNSW {
		return vfFail("%s: full scan of the reloaded index differs from the source: %s", c.Kind, why)
	}
	sweep := vfSortedU32Bool(src.live)
	for si, id := range sweep {
		// (not over an HNSW graph outside its exact regime: a Flush that deletes the entry point re-elects
		// one, and the two copies may legitimately elect different vertices)
		hybridOverHNSW := c.Kind == "hybrid" && c.Hyb != nil && c.Hyb.HasVec && c.Hyb.VecKind == "hnsw"
		if si == len(sweep)/2 && si > 0 && !approxHNSW && !hybridOverHNSW {
			// half-way: both flush (documents that came from the stream are now physically dropped from
			// the reloaded index) and must still agree
			ea, eb := src.flushNow(), dst.flushNow()
			if (ea == nil) != (eb == nil) {
				return vfFail("%s: Flush after removals: source %v, reloaded %v", c.Kind, ea, eb)
			}
			if ok, why := vfBatteriesEqual(src.fullScan(), dst.fullScan()); !ok {
				return vfFail("%s: after removing %d documents from both and flushing both, the reloaded index answers differently from the source: %s", c.Kind, si, why)
			}
			ctx.Class("flush_after_removing_reloaded_documents")
		}
		a, b := src.removeOne(id), dst.removeOne(id)
		if a != b {
			return vfFail("%s: removing document %d succeeds on one of source / reloaded index only (source %v, reloaded %v)", c.Kind, id, a, b)
		}
		if approxHNSW {
			continue
		}
		if ok, why := vfBatteriesEqual(src.fullScan(), dst.fullScan()); !ok {
			return vfFail("%s: after removing document %d from both, the reloaded index still answers differently from the source: %s", c.Kind, id, why)
		}
	}
	nonEmpty := false
	for _, r := range reloaded {
		if len(r) > 0 {
			nonEmpty = true
		}
	}
	trained := c.Kind == "ivf" || c.Kind == "pq" || c.Kind == "ivfpq"
	if nonEmpty && (nLiveAtWrite >= 3 && nRemovedBefore >= 1 || trained && !c.Untrained) {
		ctx.NonTrivial()
	}
	ctx.ClassIf(c.Untrained, "untrained_state")
	ctx.ClassIf(nLiveAtWrite == 0, "empty_or_all_removed_state")
	ctx.ClassIf(nLiveAtWrite >= 8, "eight_or_more_live_documents_in_the_stream")
	ctx.ClassIf(nRemovedBefore > 0, "removals_before_write")
	return nil
}

func vfSortedU32Bool(m map[uint32]bool) []uint32 {
	s := map[uint32]struct{}{}
	for k := range m {
		s[k] = struct{}{}
	}
	return vfSortedU32(s)
}

func TestVerif_C07(t *testing.T) { vfCheck(t, "C07", vfC07Gen, vfC07Run) }
