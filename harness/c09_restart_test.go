package comet

// C09 — data acknowledged by Flush or Close survives a restart.
// Oracle: multi-session model; every reopen uses FRESHLY constructed templates (thorough tier:
// some reopens in a separate process); segment files are never rewritten.

import (
	"crypto/sha256"
	"encoding/hex"
	"encoding/json"
	"fmt"
	"os"
	"os/exec"
	"path/filepath"
	"sort"
	"strings"
	"testing"
	"time"

	"pgregory.net/rapid"
)

type vfStoreDoc struct {
	ID   uint32    `json:"id,omitempty"` // 0: Add (auto id)
	Vec  []float32 `json:"vec,omitempty"`
	Word string    `json:"word,omitempty"` // extra vocabulary word next to the unique token
	N    int       `json:"n"`              // metadata {"n": N, "tag": "t<N%3>"} and unique token "tok<N>"
}

type vfStoreOp struct {
	Op  string      `json:"op"` // add | flush | (C08: remove | rotate | evict | bgflush | compact | search)
	Doc *vfStoreDoc `json:"doc,omitempty"`
	Ref int         `json:"ref,omitempty"`
	K   int         `json:"k,omitempty"`
	Q   []float32   `json:"q,omitempty"`
}

type vfStoreConf struct {
	VecKind  string      `json:"vec_kind"` // flat | hnsw | ivf | none
	Metric   string      `json:"metric"`
	Dim      int         `json:"dim"`
	HasText  bool        `json:"has_text"`
	HasMeta  bool        `json:"has_meta"`
	MemLimit int64       `json:"memtable_size_limit"`
	FlushThr int64       `json:"flush_threshold"`
	CompThr  int         `json:"compaction_threshold"`
	Train    [][]float32 `json:"train,omitempty"`
}

type vfC09Case struct {
	Conf     vfStoreConf   `json:"conf"`
	Sessions [][]vfStoreOp `json:"sessions"`
	// the last reopen happens in a separate process (thorough tier only)
	SeparateProcess bool `json:"separate_process,omitempty"`
}

func vfGenStoreConf(rt *rapid.T) (vfStoreConf, *vfVecGen) {
	c := vfStoreConf{}
	c.VecKind = rapid.SampledFrom([]string{"flat", "flat", "hnsw", "ivf", "none"}).Draw(rt, "store_vec_kind")
	c.Metric = string(rapid.SampledFrom(vfMetrics).Draw(rt, "metric"))
	c.Dim = rapid.IntRange(1, 4).Draw(rt, "dim")
	c.HasText = rapid.IntRange(0, 3).Draw(rt, "has_text") > 0
	c.HasMeta = rapid.IntRange(0, 3).Draw(rt, "has_meta") > 0
	if c.VecKind == "none" && !c.HasText && !c.HasMeta {
		c.HasText = true
	}
	// a document is estimated at roughly 64 + 4*dim + 2*len(text) + 96*fields = 300..400 bytes
	c.MemLimit = rapid.SampledFrom([]int64{1, 350, 700, 1500, 4000, 100000}).Draw(rt, "memtable_limit")
	c.FlushThr = rapid.SampledFrom([]int64{1 << 40, 1 << 40, 600, 2000}).Draw(rt, "flush_threshold")
	c.CompThr = rapid.IntRange(2, 5).Draw(rt, "compaction_threshold")
	g := vfNewVecGen(rt, c.Dim)
	if c.VecKind == "ivf" {
		c.Train = vfGenTrainingSet(rt, g, 6, 12, DistanceKind(c.Metric) == Cosine)
	}
	return c, g
}

func vfGenStoreDoc(rt *rapid.T, g *vfVecGen, n int, explicit map[uint32]bool) *vfStoreDoc {
	d := &vfStoreDoc{N: n, Vec: g.drawNonZero(rt, "dv"), Word: rapid.SampledFrom([]string{"fox", "zeta", "a", "fish"}).Draw(rt, "word")}
	if rapid.IntRange(0, 3).Draw(rt, "explicit_id") == 0 {
		for {
			d.ID = uint32(1<<30 + rapid.IntRange(0, 1<<20).Draw(rt, "doc_id"))
			if !explicit[d.ID] {
				explicit[d.ID] = true
				break
			}
		}
	}
	return d
}

func vfC09Gen(rt *rapid.T) vfC09Case {
	c := vfC09Case{}
	var g *vfVecGen
	c.Conf, g = vfGenStoreConf(rt)
	c.Conf.FlushThr = 1 << 40 // no background flushes here (C08 / C11 cover them)
	nSessions := rapid.IntRange(1, 4).Draw(rt, "sessions")
	n := 0
	explicit := map[uint32]bool{}
	for s := 0; s < nSessions; s++ {
		opGen := rapid.Custom(func(rt *rapid.T) vfStoreOp {
			if rapid.IntRange(0, 4).Draw(rt, "flush") == 0 {
				return vfStoreOp{Op: "flush"}
			}
			n++
			return vfStoreOp{Op: "add", Doc: vfGenStoreDoc(rt, g, n, explicit)}
		})
		c.Sessions = append(c.Sessions, rapid.SliceOfN(opGen, 0, 12).Draw(rt, "session_ops"))
	}
	c.SeparateProcess = vfTierThorough() && rapid.IntRange(0, 9).Draw(rt, "separate_process") == 0
	return c
}

// vfFreshTemplates constructs NEW template instances for one Open.
func vfFreshTemplates(c *vfStoreConf) (VectorIndex, TextIndex, MetadataIndex, error) {
	var vi VectorIndex
	var ti TextIndex
	var mi MetadataIndex
	kind := DistanceKind(c.Metric)
	var err error
	switch c.VecKind {
	case "flat":
		vi, err = NewFlatIndex(c.Dim, kind)
	case "hnsw":
		vi, err = NewHNSWIndex(c.Dim, kind, 32, 200, 200)
	case "ivf":
		vi, err = vfNewVectorIndexOfKind("ivf", c.Dim, kind, c.Train)
	}
	if err != nil {
		return nil, nil, nil, err
	}
	if c.HasText {
		ti = NewBM25SearchIndex()
	}
	if c.HasMeta {
		mi = NewRoaringMetadataIndex()
	}
	return vi, ti, mi, nil
}

func vfOpenStore(dir string, c *vfStoreConf) (*PersistentHybridIndex, error) {
	vi, ti, mi, err := vfFreshTemplates(c)
	if err != nil {
		return nil, err
	}
	return OpenPersistentHybridIndex(&StorageConfig{
		BaseDir:               dir,
		MemtableSizeLimit:     c.MemLimit,
		FlushThreshold:        c.FlushThr,
		CompactionInterval:    time.Hour,
		CompactionThreshold:   c.CompThr,
		VectorIndexTemplate:   vi,
		TextIndexTemplate:     ti,
		MetadataIndexTemplate: mi,
	})
}

func (d *vfStoreDoc) text() string { return fmt.Sprintf("tok%d %s common", d.N, d.Word) }
func (d *vfStoreDoc) meta() map[string]interface{} {
	return map[string]interface{}{"n": d.N, "tag": fmt.Sprintf("t%d", d.N%3)}
}

func vfStoreAdd(st *PersistentHybridIndex, c *vfStoreConf, d *vfStoreDoc) (uint32, error) {
	var vec []float32
	if c.VecKind != "none" {
		vec = vfCloneF32(d.Vec)
	}
	text, meta := "", map[string]interface{}(nil)
	if c.HasText {
		text = d.text()
	}
	if c.HasMeta {
		meta = d.meta()
	}
	if d.ID != 0 {
		return d.ID, st.AddWithID(d.ID, vec, text, meta)
	}
	return st.Add(vec, text, meta)
}

const vfBigK = 1 << 20

// vfStoreFind reports through which modalities a document is found (nil error expected).
func vfStoreFind(st HybridSearchIndex, c *vfStoreConf, id uint32, d *vfStoreDoc) (byVec, byText, byMeta bool, all map[uint32]bool, err error) {
	all = map[uint32]bool{}
	collect := func(res []HybridSearchResult) bool {
		found := false
		for _, r := range res {
			all[r.ID] = true
			if r.ID == id {
				found = true
			}
		}
		return found
	}
	if c.VecKind != "none" {
		res, e := st.NewSearch().WithVector(vfCloneF32(d.Vec)).WithK(vfBigK).WithNProbes(1000).Execute()
		if e != nil {
			return false, false, false, all, fmt.Errorf("vector query: %w", e)
		}
		byVec = collect(res)
	}
	if c.HasText {
		res, e := st.NewSearch().WithText(fmt.Sprintf("tok%d", d.N)).WithK(vfBigK).Execute()
		if e != nil {
			return false, false, false, all, fmt.Errorf("text query: %w", e)
		}
		byText = collect(res)
	}
	if c.HasMeta {
		res, e := st.NewSearch().WithMetadata(Eq("n", d.N)).WithK(vfBigK).Execute()
		if e != nil {
			return false, false, false, all, fmt.Errorf("metadata query: %w", e)
		}
		byMeta = collect(res)
	}
	return
}

func vfSegmentFileHashes(dir string) (map[string]string, error) {
	out := map[string]string{}
	entries, err := os.ReadDir(dir)
	if err != nil {
		return nil, err
	}
	for _, e := range entries {
		if e.IsDir() || !strings.HasSuffix(e.Name(), ".bin.gz") {
			continue
		}
		data, err := os.ReadFile(filepath.Join(dir, e.Name()))
		if err != nil {
			return nil, err
		}
		h := sha256.Sum256(data)
		out[e.Name()] = hex.EncodeToString(h[:])
	}
	return out, nil
}

// vfCheckDurable verifies on an open store that every durable document is found through all
// of its modalities and that nothing that was never added is found.
func vfCheckDurable(st HybridSearchIndex, c *vfStoreConf, durable map[uint32]*vfStoreDoc, everAdded map[uint32]bool, when string) *vfViolation {
	ids := make([]uint32, 0, len(durable))
	for id := range durable {
		ids = append(ids, id)
	}
	sort.Slice(ids, func(i, j int) bool { return ids[i] < ids[j] })
	for _, id := range ids {
		d := durable[id]
		bv, bt, bm, all, err := vfStoreFind(st, c, id, d)
		if err != nil {
			return vfFail("%s: searching for document %d: %v", when, id, err)
		}
		if c.VecKind != "none" && !bv || c.HasText && !bt || c.HasMeta && !bm {
			return vfFail("%s: document %d (n=%d) was acknowledged by a Flush/Close that returned nil, but is found by vector=%v text=%v metadata=%v (vector index %s, text %v, metadata %v; %d durable documents)", when, id, d.N, bv, bt, bm, c.VecKind, c.HasText, c.HasMeta, len(durable))
		}
		for x := range all {
			if !everAdded[x] {
				return vfFail("%s: a search returned id %d, which was never added", when, x)
			}
		}
	}
	return nil
}

func vfC09Run(c vfC09Case, ctx *vfCtx) *vfViolation {
	dir, err := os.MkdirTemp(vfEnv("VERIF_SCRATCH"), "c09-")
	if err != nil {
		return vfFail("mkdir: %v", err)
	}
	defer os.RemoveAll(dir)
	ctx.Class("vec_kind=" + c.Conf.VecKind)
	durable := map[uint32]*vfStoreDoc{}
	everAdded := map[uint32]bool{}
	var prevHashes map[string]string
	onlyByClose := false
	for si, ops := range c.Sessions {
		st, err := vfOpenStore(dir, &c.Conf)
		if err != nil {
			return vfFail("session %d: Open failed: %v", si, err)
		}
		if v := vfCheckDurable(st, &c.Conf, durable, everAdded, fmt.Sprintf("session %d after reopen with fresh templates", si)); v != nil {
			st.Close()
			return v
		}
		pending := map[uint32]*vfStoreDoc{}
		for oi, op := range ops {
			switch op.Op {
			case "add":
				if op.Doc == nil || len(op.Doc.Vec) != c.Conf.Dim {
					continue
				}
				if op.Doc.ID != 0 && everAdded[op.Doc.ID] {
					continue
				}
				id, err := vfStoreAdd(st, &c.Conf, op.Doc)
				if err != nil {
					st.Close()
					return vfFail("session %d op %d: add failed: %v", si, oi, err)
				}
				if everAdded[id] {
					st.Close()
					return vfFail("session %d op %d: Add returned id %d for the second time", si, oi, id)
				}
				everAdded[id] = true
				pending[id] = op.Doc
			case "flush":
				if err := st.Flush(); err != nil {
					continue // not acknowledged
				}
				for id, d := range pending {
					durable[id] = d
				}
				pending = map[uint32]*vfStoreDoc{}
			}
		}
		if len(pending) > 0 {
			onlyByClose = true
		}
		if err := st.Close(); err == nil {
			for id, d := range pending {
				durable[id] = d
			}
		}
		hashes, err := vfSegmentFileHashes(dir)
		if err != nil {
			return vfFail("reading the directory: %v", err)
		}
		for name, h := range prevHashes {
			if hashes[name] != h {
				return vfFail("session %d: segment file %s of an earlier session was rewritten or removed (hash %s -> %q)", si, name, h[:12], hashes[name])
			}
		}
		prevHashes = hashes
		if _, err := os.Stat(filepath.Join(dir, "LOCK")); err == nil {
			return vfFail("session %d: LOCK file left behind after Close", si)
		}
	}
	// final reopen
	if c.SeparateProcess {
		if v := vfC09CheckInChild(dir, &c, durable, everAdded); v != nil {
			return v
		}
		ctx.Class("final_reopen_in_separate_process")
	} else {
		st, err := vfOpenStore(dir, &c.Conf)
		if err != nil {
			return vfFail("final reopen failed: %v", err)
		}
		v := vfCheckDurable(st, &c.Conf, durable, everAdded, "final reopen with fresh templates")
		st.Close()
		if v != nil {
			return v
		}
	}
	nseg := 0
	for name := range prevHashes {
		if strings.HasPrefix(name, "hybrid_") {
			nseg++
		}
	}
	if len(c.Sessions) >= 2 && nseg >= 2 && onlyByClose {
		ctx.NonTrivial()
	}
	ctx.ClassIf(onlyByClose, "documents_persisted_only_by_close")
	ctx.Count("segments_seen", int64(nseg))
	return nil
}

// ---- separate-process reopen: the test binary re-executes itself ----------------------

type vfC09ChildJob struct {
	Dir       string                 `json:"dir"`
	Conf      vfStoreConf            `json:"conf"`
	Durable   map[uint32]*vfStoreDoc `json:"durable"`
	EverAdded []uint32               `json:"ever_added"`
}

func vfC09CheckInChild(dir string, c *vfC09Case, durable map[uint32]*vfStoreDoc, everAdded map[uint32]bool) *vfViolation {
	job := vfC09ChildJob{Dir: dir, Conf: c.Conf, Durable: durable}
	for id := range everAdded {
		job.EverAdded = append(job.EverAdded, id)
	}
	data, _ := json.Marshal(job)
	jobFile := filepath.Join(dir, "..", filepath.Base(dir)+".job.json")
	if err := os.WriteFile(jobFile, data, 0o644); err != nil {
		return vfFail("writing the child job: %v", err)
	}
	defer os.Remove(jobFile)
	cmd := exec.Command(os.Args[0], "-test.run", "^TestVerif_C09Child$")
	cmd.Env = append(os.Environ(), "VERIF_C09_CHILD_JOB="+jobFile, "VERIF_OUT=", "VERIF_REPLAY=")
	out, err := cmd.CombinedOutput()
	if err != nil {
		msg := string(out)
		if i := strings.Index(msg, "CHILD-VIOLATION:"); i >= 0 {
			return vfFail("reopen in a SEPARATE PROCESS: %s", strings.SplitN(msg[i+len("CHILD-VIOLATION:"):], "\n", 2)[0])
		}
		return vfFail("the child process for the separate-process reopen failed: %v\n%s", err, msg)
	}
	return nil
}

// TestVerif_C09Child is the body of the child process (not a check of its own).
func TestVerif_C09Child(t *testing.T) {
	jobFile := os.Getenv("VERIF_C09_CHILD_JOB")
	if jobFile == "" {
		t.Skip("only runs as a child of TestVerif_C09")
	}
	data, err := os.ReadFile(jobFile)
	if err != nil {
		t.Fatalf("job: %v", err)
	}
	var job vfC09ChildJob
	if err := json.Unmarshal(data, &job); err != nil {
		t.Fatalf("job: %v", err)
	}
	ever := map[uint32]bool{}
	for _, id := range job.EverAdded {
		ever[id] = true
	}
	st, err := vfOpenStore(job.Dir, &job.Conf)
	if err != nil {
		fmt.Printf("CHILD-VIOLATION: Open failed: %v\n", err)
		t.FailNow()
	}
	defer st.Close()
	if v := vfCheckDurable(st, &job.Conf, job.Durable, ever, "child process"); v != nil {
		fmt.Printf("CHILD-VIOLATION: %s\n", strings.ReplaceAll(v.Msg, "\n", " "))
		t.FailNow()
	}
}

func TestVerif_C09(t *testing.T) { vfCheck(t, "C09", vfC09Gen, vfC09Run) }
