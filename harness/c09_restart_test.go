package comet

// C09 — data acknowledged by Flush or Close survives a restart.
// Oracle: multi-session model; every reopen uses FRESHLY constructed templates (thorough tier:
// some reopens in a separate process); segment files are never rewritten.

import (
	"crypto/sha256"
	"encoding/hex"
	"encoding/json"
	"fmt"
	"math"
	"math/rand/v2"
	"os"
	"os/exec"
	"path/filepath"
	"sort"
	"strings"
	"testing"
	"time"

	"pgregory.net/rapid"
)

type vfStoreDoc struct {
	ID   uint32    `json:"id,omitempty"` // 0: Add (auto id)
	Vec  []float32 `json:"vec,omitempty"`
	Word string    `json:"word,omitempty"` // extra vocabulary word next to the unique token
	N    int       `json:"n"`              // metadata {"n": N, "tag": "t<N%3>"} and unique token "tok<N>"
	// the document is added WITHOUT this modality although the store has it: "" | vec | text | meta
	// (only generated for stores that have all three, so that every document keeps two)
	Lacks string `json:"lacks,omitempty"`
}

func (d *vfStoreDoc) hasVec(c *vfStoreConf) bool  { return c.VecKind != "none" && d.Lacks != "vec" }
func (d *vfStoreDoc) hasText(c *vfStoreConf) bool { return c.HasText && d.Lacks != "text" }
func (d *vfStoreDoc) hasMeta(c *vfStoreConf) bool { return c.HasMeta && d.Lacks != "meta" }

// vfMaybeLacks makes one document in five lack one modality (stores with all three only).
func vfMaybeLacks(rt *rapid.T, c *vfStoreConf, d *vfStoreDoc) *vfStoreDoc {
	if c.VecKind != "none" && c.HasText && c.HasMeta && rapid.IntRange(0, 4).Draw(rt, "lacks_a_modality") == 0 {
		d.Lacks = rapid.SampledFrom([]string{"vec", "text", "meta"}).Draw(rt, "lacks")
	}
	return d
}

type vfStoreOp struct {
	Op  string      `json:"op"` // add | flush | bulk | (C08: remove | rotate | evict | bgflush | compact | search)
	Doc *vfStoreDoc `json:"doc,omitempty"`
	// bulk (C09): Count documents with explicit ids From.. and vectors derived from Seed
	Count int       `json:"count,omitempty"`
	From  uint32    `json:"from,omitempty"`
	Seed  uint64    `json:"seed,omitempty"`
	Ref   int       `json:"ref,omitempty"`
	K     int       `json:"k,omitempty"`
	Q     []float32 `json:"q,omitempty"`
}

type vfStoreConf struct {
	VecKind  string      `json:"vec_kind"` // flat | hnsw | ivf | none
	Metric   string      `json:"metric"`
	Dim      int         `json:"dim"`
	HasText  bool        `json:"has_text"`
	HasMeta  bool        `json:"has_meta"`
	MemLimit int64       `json:"memtable_size_limit"`
	FlushThr int64       `json:"flush_threshold"`
	CompThr  int         `json:"compaction_threshold"`
	Train    [][]float32 `json:"train,omitempty"`
	// a second training sample: "freshly constructed templates" of a later session need not have
	// been trained on the data the earlier session's template saw
	TrainAlt [][]float32 `json:"train_alt,omitempty"`
	UseAlt   bool        `json:"-"`
}

type vfC09Case struct {
	Conf     vfStoreConf   `json:"conf"`
	Sessions [][]vfStoreOp `json:"sessions"`
	// the last reopen happens in a separate process (thorough tier only)
	SeparateProcess bool         `json:"separate_process,omitempty"`
	ChildAdds       []vfStoreDoc `json:"child_adds,omitempty"` // documents the other process adds (explicit ids)
	// name of the store directory below the scratch directory ("" = the scratch directory itself):
	// "the same directory" is any directory, also one whose name means something to a pattern matcher
	DirName string `json:"dir_name,omitempty"`
}

var vfOddDirNames = []string{"run[2024]", "a b", "st*r", "q?x", "x{1,2}", "d\u00e9j\u00e0 vu", "%d", "back\\slash", "[a-", "deep/er/still", ".hidden", "trailing.bin.gz", "hybrid_000001.bin.gz"}

func vfGenStoreConf(rt *rapid.T) (vfStoreConf, *vfVecGen) {
	c := vfStoreConf{}
	c.VecKind = rapid.SampledFrom([]string{"flat", "flat", "hnsw", "ivf", "none"}).Draw(rt, "store_vec_kind")
	c.Metric = string(rapid.SampledFrom(vfMetrics).Draw(rt, "metric"))
	c.Dim = rapid.IntRange(1, 4).Draw(rt, "dim")
	c.HasText = rapid.IntRange(0, 3).Draw(rt, "has_text") > 0
	c.HasMeta = rapid.IntRange(0, 3).Draw(rt, "has_meta") > 0
	if c.VecKind == "none" && !c.HasText && !c.HasMeta {
		c.HasText = true
	}
	// a document is estimated at roughly 64 + 4*dim + 2*len(text) + 96*fields = 300..400 bytes
	c.MemLimit = rapid.SampledFrom([]int64{1, 350, 700, 1500, 4000, 100000}).Draw(rt, "memtable_limit")
	c.FlushThr = rapid.SampledFrom([]int64{1 << 40, 1 << 40, 600, 2000}).Draw(rt, "flush_threshold")
	c.CompThr = rapid.IntRange(2, 5).Draw(rt, "compaction_threshold")
	g := vfNewVecGen(rt, c.Dim)
	if c.VecKind == "ivf" {
		c.Train = vfGenTrainingSet(rt, g, 6, 12, DistanceKind(c.Metric) == Cosine)
	}
	return c, g
}

func vfGenStoreDoc(rt *rapid.T, g *vfVecGen, n int, explicit map[uint32]bool) *vfStoreDoc {
	d := &vfStoreDoc{N: n, Vec: g.drawNonZero(rt, "dv"), Word: rapid.SampledFrom([]string{"fox", "zeta", "a", "fish"}).Draw(rt, "word")}
	if rapid.IntRange(0, 3).Draw(rt, "explicit_id") == 0 {
		for {
			d.ID = uint32(1<<30 + rapid.IntRange(0, 1<<20).Draw(rt, "doc_id"))
			if !explicit[d.ID] {
				explicit[d.ID] = true
				break
			}
		}
	}
	return d
}

func vfC09Gen(rt *rapid.T) vfC09Case {
	c := vfC09Case{}
	var g *vfVecGen
	c.Conf, g = vfGenStoreConf(rt)
	// mostly no background flushes (C08 / C11 schedule them); in a quarter of the cases the worker runs
	// free with a small threshold, so that Close finds flushes queued or under way
	if rapid.IntRange(0, 3).Draw(rt, "background_flushes") > 0 {
		c.Conf.FlushThr = 1 << 40
	} else {
		c.Conf.FlushThr = rapid.SampledFrom([]int64{1, 600, 2000}).Draw(rt, "c09_flush_threshold")
	}
	if c.Conf.VecKind == "ivf" && rapid.Bool().Draw(rt, "second_training_sample") {
		c.Conf.TrainAlt = vfGenTrainingSet(rt, g, 6, 12, DistanceKind(c.Conf.Metric) == Cosine)
	}
	nSessions := rapid.IntRange(1, 4).Draw(rt, "sessions")
	n := 0
	explicit := map[uint32]bool{}
	// one case in eight holds segments far larger than a gzip block: wide vectors, big memtables and
	// bulk operations that add hundreds of documents before one flush
	bulk := c.Conf.VecKind != "ivf" && rapid.IntRange(0, 7).Draw(rt, "bulk_case") == 0
	if bulk {
		c.Conf.Dim = rapid.SampledFrom([]int{16, 32, 64}).Draw(rt, "bulk_dim")
		c.Conf.MemLimit = rapid.SampledFrom([]int64{1 << 30, 1 << 30, 200000}).Draw(rt, "bulk_memtable_limit")
		g = vfNewVecGen(rt, c.Conf.Dim)
	}
	bulkFrom := uint32(1 << 29)
	for s := 0; s < nSessions; s++ {
		opGen := rapid.Custom(func(rt *rapid.T) vfStoreOp {
			if rapid.IntRange(0, 4).Draw(rt, "flush") == 0 {
				if rapid.IntRange(0, 5).Draw(rt, "io_fault") == 0 {
					// a Flush that meets an I/O fault (a directory sits where a segment file is to be
					// created), followed by a Flush after the fault has gone
					return vfStoreOp{Op: "blocked_flush", Count: rapid.IntRange(0, 3).Draw(rt, "blocked_file")}
				}
				if rapid.IntRange(0, 7).Draw(rt, "io_fault_at_close") == 0 {
					// the session's Close meets the same kind of fault: it may only return nil if what was
					// pending is on disk all the same
					return vfStoreOp{Op: "blocked_close", Count: rapid.IntRange(0, 3).Draw(rt, "blocked_file")}
				}
				return vfStoreOp{Op: "flush"}
			}
			if bulk && rapid.IntRange(0, 3).Draw(rt, "bulk_op") == 0 {
				op := vfStoreOp{Op: "bulk", Count: rapid.IntRange(100, 900).Draw(rt, "bulk_count"), From: bulkFrom, Seed: rapid.Uint64().Draw(rt, "bulk_seed")}
				bulkFrom += uint32(op.Count)
				n += op.Count
				return op
			}
			n++
			return vfStoreOp{Op: "add", Doc: vfMaybeLacks(rt, &c.Conf, vfGenStoreDoc(rt, g, n, explicit))}
		})
		c.Sessions = append(c.Sessions, vfListOf(rt, "session_ops", opGen, 0, 24))
	}
	// one case in twenty (thorough: one in six): the last session runs in ANOTHER PROCESS, which checks
	// what it finds, adds documents of its own, flushes, closes - and this process then reopens
	nth := 19
	if vfTierThorough() {
		nth = 5
	}
	if rapid.IntRange(0, 5).Draw(rt, "odd_directory_name") == 0 {
		c.DirName = rapid.SampledFrom(vfOddDirNames).Draw(rt, "dir_name")
	}
	c.SeparateProcess = rapid.IntRange(0, nth).Draw(rt, "separate_process") == 0
	if c.SeparateProcess {
		for j := 0; j < rapid.IntRange(0, 4).Draw(rt, "child_adds"); j++ {
			n++
			d := vfGenStoreDoc(rt, g, n, explicit)
			if d.ID == 0 { // explicit ids only: automatic ids restart in a new process
				d.ID = uint32(1<<30 + 1<<20 + n)
			}
			c.ChildAdds = append(c.ChildAdds, *d)
		}
	}
	return c
}

// vfFreshTemplates constructs NEW template instances for one Open.
func vfFreshTemplates(c *vfStoreConf) (VectorIndex, TextIndex, MetadataIndex, error) {
	var vi VectorIndex
	var ti TextIndex
	var mi MetadataIndex
	kind := DistanceKind(c.Metric)
	var err error
	switch c.VecKind {
	case "flat":
		vi, err = NewFlatIndex(c.Dim, kind)
	case "hnsw":
		vi, err = NewHNSWIndex(c.Dim, kind, 32, 200, 200)
	case "ivf":
		train := c.Train
		if c.UseAlt && len(c.TrainAlt) > 0 {
			train = c.TrainAlt
		}
		vi, err = vfNewVectorIndexOfKind("ivf", c.Dim, kind, train)
	}
	if err != nil {
		return nil, nil, nil, err
	}
	if c.HasText {
		ti = NewBM25SearchIndex()
	}
	if c.HasMeta {
		mi = NewRoaringMetadataIndex()
	}
	return vi, ti, mi, nil
}

func vfOpenStore(dir string, c *vfStoreConf) (*PersistentHybridIndex, error) {
	vi, ti, mi, err := vfFreshTemplates(c)
	if err != nil {
		return nil, err
	}
	return OpenPersistentHybridIndex(&StorageConfig{
		BaseDir:               dir,
		MemtableSizeLimit:     c.MemLimit,
		FlushThreshold:        c.FlushThr,
		CompactionInterval:    time.Hour,
		CompactionThreshold:   c.CompThr,
		VectorIndexTemplate:   vi,
		TextIndexTemplate:     ti,
		MetadataIndexTemplate: mi,
	})
}

func (d *vfStoreDoc) text() string { return fmt.Sprintf("tok%d %s common", d.N, d.Word) }
func (d *vfStoreDoc) meta() map[string]interface{} {
	m := map[string]interface{}{"n": d.N, "tag": fmt.Sprintf("t%d", d.N%3)}
	// fields that only some documents carry: removing their last carrier drains a field's index
	// while the memtable still holds other documents
	if d.N%3 == 1 {
		m["p"] = d.N * 10
	}
	if d.N%4 == 2 {
		m["q"] = d.Word
	}
	return m
}

func vfStoreAdd(st *PersistentHybridIndex, c *vfStoreConf, d *vfStoreDoc) (uint32, error) {
	var vec []float32
	if d.hasVec(c) {
		vec = vfCloneF32(d.Vec)
	}
	text, meta := "", map[string]interface{}(nil)
	if d.hasText(c) {
		text = d.text()
	}
	if d.hasMeta(c) {
		meta = d.meta()
	}
	if d.ID != 0 {
		return d.ID, st.AddWithID(d.ID, vec, text, meta)
	}
	return st.Add(vec, text, meta)
}

const vfBigK = 1 << 20

// vfStoreFind reports through which modalities a document is found (nil error expected).
func vfStoreFind(st HybridSearchIndex, c *vfStoreConf, id uint32, d *vfStoreDoc) (byVec, byText, byMeta bool, all map[uint32]bool, err error) {
	all = map[uint32]bool{}
	var ownScore float64
	collect := func(res []HybridSearchResult) bool {
		found := false
		for _, r := range res {
			all[r.ID] = true
			if r.ID == id {
				found = true
				ownScore = r.Score
			}
		}
		return found
	}
	byVec, byText, byMeta = !d.hasVec(c), !d.hasText(c), !d.hasMeta(c) // nothing to find where nothing was added
	if d.hasVec(c) {
		res, e := st.NewSearch().WithVector(vfCloneF32(d.Vec)).WithK(vfBigK).WithNProbes(1000).Execute()
		if e != nil {
			return false, false, false, all, fmt.Errorf("vector query: %w", e)
		}
		byVec = collect(res)
		// "found by its vector": the document is returned at distance 0 from its own vector (a
		// vector-only query reports the distance), i.e. the vector that was stored is the one added
		if byVec {
			tol := 1e-5
			if DistanceKind(c.Metric) != Cosine {
				tol = 1e-5 * (1 + vfRefL2Sq(d.Vec, make([]float32, len(d.Vec))))
			}
			if math.IsNaN(ownScore) || math.Abs(ownScore) > tol {
				return false, false, false, all, fmt.Errorf("vector query with document %d's own vector reports it at distance %v, want 0 (another vector was stored or reloaded for it)", id, ownScore)
			}
		}
	}
	if d.hasText(c) {
		res, e := st.NewSearch().WithText(fmt.Sprintf("tok%d", d.N)).WithK(vfBigK).Execute()
		if e != nil {
			return false, false, false, all, fmt.Errorf("text query: %w", e)
		}
		byText = collect(res)
	}
	if d.hasMeta(c) {
		res, e := st.NewSearch().WithMetadata(Eq("n", d.N)).WithK(vfBigK).Execute()
		if e != nil {
			return false, false, false, all, fmt.Errorf("metadata query: %w", e)
		}
		byMeta = collect(res)
	}
	return
}

func vfSegmentFileHashes(dir string) (map[string]string, error) {
	out := map[string]string{}
	entries, err := os.ReadDir(dir)
	if err != nil {
		return nil, err
	}
	for _, e := range entries {
		if e.IsDir() || !strings.HasSuffix(e.Name(), ".bin.gz") {
			continue
		}
		data, err := os.ReadFile(filepath.Join(dir, e.Name()))
		if err != nil {
			return nil, err
		}
		h := sha256.Sum256(data)
		out[e.Name()] = hex.EncodeToString(h[:])
	}
	return out, nil
}

// vfCheckDurable verifies on an open store that every durable document is found through all
// of its modalities and that nothing that was never added is found.
func vfCheckDurable(st HybridSearchIndex, c *vfStoreConf, durable map[uint32]*vfStoreDoc, everAdded map[uint32]bool, when string) *vfViolation {
	ids := make([]uint32, 0, len(durable))
	for id := range durable {
		ids = append(ids, id)
	}
	sort.Slice(ids, func(i, j int) bool { return ids[i] < ids[j] })
	step := 1
	// HNSW promises exact answers only while it is small (C12); with many documents its vector
	// lookups are left to the before / after comparison with default parameters
	vecExact := c.VecKind != "hnsw" || len(ids) <= 64
	if !vecExact {
		cc := *c
		cc.VecKind = "none"
		c = &cc
	}
	if len(ids) > 48 {
		// many documents (bulk sessions): one census query per modality must return every durable
		// document, and every 1/48th document is looked up individually as well
		step = (len(ids) + 47) / 48
		if v := vfStoreCensus(st, c, durable, everAdded, when); v != nil {
			return v
		}
	}
	for i, id := range ids {
		if i%step != 0 {
			continue
		}
		d := durable[id]
		bv, bt, bm, all, err := vfStoreFind(st, c, id, d)
		if err != nil {
			return vfFail("%s: searching for document %d: %v", when, id, err)
		}
		if c.VecKind != "none" && !bv || c.HasText && !bt || c.HasMeta && !bm {
			return vfFail("%s: document %d (n=%d) was acknowledged by a Flush/Close that returned nil, but is found by vector=%v text=%v metadata=%v (vector index %s, text %v, metadata %v; %d durable documents)", when, id, d.N, bv, bt, bm, c.VecKind, c.HasText, c.HasMeta, len(durable))
		}
		for x := range all {
			if !everAdded[x] {
				return vfFail("%s: a search returned id %d, which was never added", when, x)
			}
		}
	}
	return nil
}

// vfStoreCensus: one query per modality that every document matches.
func vfStoreCensus(st HybridSearchIndex, c *vfStoreConf, durable map[uint32]*vfStoreDoc, everAdded map[uint32]bool, when string) *vfViolation {
	check := func(what string, res []HybridSearchResult, err error, has func(d *vfStoreDoc) bool) *vfViolation {
		if err != nil {
			return vfFail("%s: %s census query: %v", when, what, err)
		}
		got := map[uint32]bool{}
		for _, r := range res {
			got[r.ID] = true
			if !everAdded[r.ID] {
				return vfFail("%s: the %s census returned id %d, which was never added", when, what, r.ID)
			}
		}
		missing, first := 0, uint32(0)
		for id, d := range durable {
			if has(d) && !got[id] {
				if missing == 0 || id < first {
					first = id
				}
				missing++
			}
		}
		if missing > 0 {
			return vfFail("%s: %d of %d documents acknowledged by a Flush/Close that returned nil are not returned by a %s query that matches every document (first missing id %d; vector index %s)", when, missing, len(durable), what, first, c.VecKind)
		}
		return nil
	}
	if c.VecKind != "none" {
		q := make([]float32, c.Dim)
		q[0] = 1
		res, err := st.NewSearch().WithVector(q).WithK(vfBigK).WithNProbes(1000).Execute()
		if v := check("vector", res, err, func(d *vfStoreDoc) bool { return d.hasVec(c) }); v != nil {
			return v
		}
	}
	if c.HasText {
		res, err := st.NewSearch().WithText("common").WithK(vfBigK).Execute()
		if v := check("text", res, err, func(d *vfStoreDoc) bool { return d.hasText(c) }); v != nil {
			return v
		}
	}
	if c.HasMeta {
		res, err := st.NewSearch().WithMetadata(Exists("n")).WithK(vfBigK).Execute()
		if v := check("metadata", res, err, func(d *vfStoreDoc) bool { return d.hasMeta(c) }); v != nil {
			return v
		}
	}
	return nil
}

// vfBulkDoc is document i of a bulk operation: a pure function of the operation.
func vfBulkDoc(op *vfStoreOp, i, dim int) *vfStoreDoc {
	r := rand.New(rand.NewPCG(op.Seed, uint64(i)))
	v := make([]float32, dim)
	for j := range v {
		v[j] = float32(r.NormFloat64())
	}
	id := op.From + uint32(i)
	return &vfStoreDoc{ID: id, Vec: v, Word: "fox", N: int(id-1<<29) + 100000}
}

// vfDefaultFind: which of the documents does a vector query with the document's own vector and the
// store's DEFAULT search parameters (no nprobes / efSearch override) return? Used as a baseline:
// whatever such a query found before Close it must find after the restart.
func vfDefaultFind(st HybridSearchIndex, c *vfStoreConf, docs map[uint32]*vfStoreDoc) (map[uint32]bool, error) {
	out := map[uint32]bool{}
	if c.VecKind == "none" {
		return out, nil
	}
	ids := make([]uint32, 0, len(docs))
	for id := range docs {
		ids = append(ids, id)
	}
	sort.Slice(ids, func(i, j int) bool { return ids[i] < ids[j] })
	step := (len(ids) + 47) / 48
	for i, id := range ids {
		if step > 1 && i%step != 0 {
			continue
		}
		res, err := st.NewSearch().WithVector(vfCloneF32(docs[id].Vec)).WithK(vfBigK).Execute()
		if err != nil {
			return nil, err
		}
		for _, r := range res {
			if r.ID == id {
				out[id] = true
			}
		}
	}
	return out, nil
}

func vfC09Run(c vfC09Case, ctx *vfCtx) *vfViolation {
	for _, sess := range c.Sessions {
		ctx.HistoryLen("session", len(sess))
	}
	dir, err := os.MkdirTemp(vfEnv("VERIF_SCRATCH"), "c09-")
	if err != nil {
		return vfFail("mkdir: %v", err)
	}
	defer os.RemoveAll(dir)
	if c.DirName != "" {
		dir = filepath.Join(dir, filepath.FromSlash(c.DirName))
		ctx.Class("store_directory_with_an_unusual_name")
	}
	ctx.Class("vec_kind=" + c.Conf.VecKind)
	ctx.ClassIf(c.Conf.FlushThr < 1<<30, "background_flush_worker_active")
	durable := map[uint32]*vfStoreDoc{}
	everAdded := map[uint32]bool{}
	var prevHashes map[string]string
	onlyByClose := false
	foundByDefault := map[uint32]bool{}
	checkDefault := func(st HybridSearchIndex, conf *vfStoreConf, when string) *vfViolation {
		base := map[uint32]*vfStoreDoc{}
		for id := range foundByDefault {
			if d := durable[id]; d != nil {
				base[id] = d
			}
		}
		now, err := vfDefaultFind(st, conf, base)
		if err != nil {
			return vfFail("%s: vector query with default parameters: %v", when, err)
		}
		ids := make([]uint32, 0, len(base))
		for id := range base {
			ids = append(ids, id)
		}
		sort.Slice(ids, func(i, j int) bool { return ids[i] < ids[j] })
		step := (len(ids) + 47) / 48
		for i, id := range ids {
			if step > 1 && i%step != 0 {
				continue
			}
			if !now[id] {
				return vfFail("%s: before the previous Close a vector query with document %d's own vector and the default search parameters returned it; after the restart the same query does not (vector index %s, freshly trained template: %v)", when, id, conf.VecKind, conf.UseAlt)
			}
		}
		ctx.Count("default_parameter_lookups_compared", int64(len(ids)))
		return nil
	}
	for si, ops := range c.Sessions {
		conf := c.Conf
		conf.UseAlt = si%2 == 1
		ctx.ClassIf(conf.UseAlt && len(conf.TrainAlt) > 0, "session_with_differently_trained_template")
		st, err := vfOpenStore(dir, &conf)
		if err != nil {
			return vfFail("session %d: Open failed: %v", si, err)
		}
		if v := vfCheckDurable(st, &c.Conf, durable, everAdded, fmt.Sprintf("session %d after reopen with fresh templates", si)); v != nil {
			st.Close()
			return v
		}
		if v := checkDefault(st, &conf, fmt.Sprintf("session %d after reopen with fresh templates", si)); v != nil {
			st.Close()
			return v
		}
		pending := map[uint32]*vfStoreDoc{}
		blockClose := 0 // > 0: the session's Close meets an injected I/O fault (file kind blockClose-1)
		for oi, op := range ops {
			switch op.Op {
			case "add":
				if op.Doc == nil || len(op.Doc.Vec) != c.Conf.Dim {
					continue
				}
				if op.Doc.ID != 0 && everAdded[op.Doc.ID] {
					continue
				}
				id, err := vfStoreAdd(st, &c.Conf, op.Doc)
				if err != nil {
					st.Close()
					return vfFail("session %d op %d: add failed: %v", si, oi, err)
				}
				if everAdded[id] {
					st.Close()
					return vfFail("session %d op %d: Add returned id %d for the second time", si, oi, id)
				}
				everAdded[id] = true
				pending[id] = op.Doc
			case "bulk":
				if op.Count <= 0 || op.Count > 5000 || op.From < 1<<29 || op.From >= 1<<30 {
					continue
				}
				for i := 0; i < op.Count; i++ {
					d := vfBulkDoc(&op, i, c.Conf.Dim)
					if everAdded[d.ID] {
						continue
					}
					if _, err := vfStoreAdd(st, &c.Conf, d); err != nil {
						st.Close()
						return vfFail("session %d op %d: bulk add of document %d failed: %v", si, oi, d.ID, err)
					}
					everAdded[d.ID] = true
					pending[d.ID] = d
				}
				ctx.Class("bulk_operation")
				ctx.Stat("bulk_vector_bytes", float64(op.Count*c.Conf.Dim*4))
			case "blocked_flush":
				names, _ := os.ReadDir(dir)
				var have []string
				for _, e := range names {
					have = append(have, e.Name())
				}
				next := vfMaxSegmentID(have)
				kindName := []string{"vector", "text", "metadata", "hybrid"}[op.Count%4]
				var blockers []string
				for k := uint64(1); k <= 6; k++ {
					b := filepath.Join(dir, fmt.Sprintf("%s_%06d.bin.gz", kindName, next+k))
					if os.Mkdir(b, 0o755) == nil {
						blockers = append(blockers, b)
					}
				}
				ferr := st.Flush()
				for _, b := range blockers {
					os.Remove(b)
				}
				ctx.ClassIf(ferr != nil, "flush_failed_on_an_injected_io_fault")
				if ferr == nil {
					// (nothing needed that file, or nothing was pending): acknowledged like any Flush
					for id, d := range pending {
						durable[id] = d
					}
					pending = map[uint32]*vfStoreDoc{}
				}
				// the fault is gone: what the next Flush / Close acknowledges must be on disk
				if err := st.Flush(); err == nil {
					for id, d := range pending {
						durable[id] = d
					}
					pending = map[uint32]*vfStoreDoc{}
				}
			case "blocked_close":
				blockClose = op.Count%4 + 1
			case "flush":
				if err := st.Flush(); err != nil {
					continue // not acknowledged
				}
				for id, d := range pending {
					durable[id] = d
				}
				pending = map[uint32]*vfStoreDoc{}
			}
		}
		if len(pending) > 0 {
			onlyByClose = true
		}
		// baseline for the next session: what a default-parameter lookup finds right now
		known := map[uint32]*vfStoreDoc{}
		for id, d := range durable {
			known[id] = d
		}
		for id, d := range pending {
			known[id] = d
		}
		if fb, err := vfDefaultFind(st, &conf, known); err == nil {
			foundByDefault = fb
		} else {
			st.Close()
			return vfFail("session %d: vector query with default parameters before Close: %v", si, err)
		}
		var closeBlockers []string
		if blockClose > 0 {
			names, _ := os.ReadDir(dir)
			var have []string
			for _, e := range names {
				have = append(have, e.Name())
			}
			next := vfMaxSegmentID(have)
			kindName := []string{"vector", "text", "metadata", "hybrid"}[blockClose-1]
			for k := uint64(1); k <= 12; k++ {
				b := filepath.Join(dir, fmt.Sprintf("%s_%06d.bin.gz", kindName, next+k))
				if os.Mkdir(b, 0o755) == nil {
					closeBlockers = append(closeBlockers, b)
				}
			}
		}
		cerr := st.Close()
		for _, b := range closeBlockers {
			os.Remove(b)
		}
		if blockClose > 0 {
			ctx.ClassIf(cerr != nil, "close_failed_on_an_injected_io_fault")
			ctx.ClassIf(cerr == nil, "close_returned_nil_under_an_injected_io_fault")
		}
		if cerr == nil {
			for id, d := range pending {
				durable[id] = d
			}
		}
		hashes, err := vfSegmentFileHashes(dir)
		if err != nil {
			return vfFail("reading the directory: %v", err)
		}
		for name, h := range prevHashes {
			if hashes[name] != h {
				return vfFail("session %d: segment file %s of an earlier session was rewritten or removed (hash %s -> %q)", si, name, h[:12], hashes[name])
			}
		}
		prevHashes = hashes
		if _, err := os.Stat(filepath.Join(dir, "LOCK")); err == nil {
			return vfFail("session %d: LOCK file left behind after Close", si)
		}
	}
	// final reopen
	if c.SeparateProcess {
		if v := vfC09CheckInChild(dir, &c, durable, everAdded); v != nil {
			return v
		}
		ctx.Class("final_reopen_in_separate_process")
		// the other process has added, flushed and closed: everything must be here
		for j := range c.ChildAdds {
			d := &c.ChildAdds[j]
			if len(d.Vec) == c.Conf.Dim && d.ID != 0 && !everAdded[d.ID] {
				everAdded[d.ID] = true
				durable[d.ID] = d
				ctx.Class("document_added_by_the_other_process")
			}
		}
		if _, err := os.Stat(filepath.Join(dir, "LOCK")); err == nil {
			return vfFail("LOCK file left behind by the other process after its Close")
		}
		st, err := vfOpenStore(dir, &c.Conf)
		if err != nil {
			return vfFail("reopen after the other process closed the store failed: %v", err)
		}
		v := vfCheckDurable(st, &c.Conf, durable, everAdded, "reopen after another process added, flushed and closed")
		st.Close()
		if v != nil {
			return v
		}
	} else {
		conf := c.Conf
		conf.UseAlt = len(c.Sessions)%2 == 1
		st, err := vfOpenStore(dir, &conf)
		if err != nil {
			return vfFail("final reopen failed: %v", err)
		}
		v := vfCheckDurable(st, &c.Conf, durable, everAdded, "final reopen with fresh templates")
		if v == nil {
			v = checkDefault(st, &conf, "final reopen with fresh templates")
		}
		st.Close()
		if v != nil {
			return v
		}
	}
	nseg := 0
	for name := range prevHashes {
		if strings.HasPrefix(name, "hybrid_") {
			nseg++
		}
	}
	if len(c.Sessions) >= 2 && nseg >= 2 && onlyByClose {
		ctx.NonTrivial()
	}
	ctx.ClassIf(onlyByClose, "documents_persisted_only_by_close")
	ctx.Count("segments_seen", int64(nseg))
	return nil
}

// ---- separate-process reopen: the test binary re-executes itself ----------------------

type vfC09ChildJob struct {
	Dir       string                 `json:"dir"`
	Conf      vfStoreConf            `json:"conf"`
	Durable   map[uint32]*vfStoreDoc `json:"durable"`
	EverAdded []uint32               `json:"ever_added"`
	Adds      []vfStoreDoc           `json:"adds,omitempty"`
}

func vfC09CheckInChild(dir string, c *vfC09Case, durable map[uint32]*vfStoreDoc, everAdded map[uint32]bool) *vfViolation {
	job := vfC09ChildJob{Dir: dir, Conf: c.Conf, Durable: durable, Adds: c.ChildAdds}
	for id := range everAdded {
		job.EverAdded = append(job.EverAdded, id)
	}
	data, _ := json.Marshal(job)
	jobFile := filepath.Join(dir, "..", filepath.Base(dir)+".job.json")
	if err := os.WriteFile(jobFile, data, 0o644); err != nil {
		return vfFail("writing the child job: %v", err)
	}
	defer os.Remove(jobFile)
	cmd := exec.Command(os.Args[0], "-test.run", "^TestVerif_C09Child$")
	cmd.Env = append(os.Environ(), "VERIF_C09_CHILD_JOB="+jobFile, "VERIF_OUT=", "VERIF_REPLAY=")
	out, err := cmd.CombinedOutput()
	if err != nil {
		msg := string(out)
		if i := strings.Index(msg, "CHILD-VIOLATION:"); i >= 0 {
			return vfFail("reopen in a SEPARATE PROCESS: %s", strings.SplitN(msg[i+len("CHILD-VIOLATION:"):], "\n", 2)[0])
		}
		return vfFail("the child process for the separate-process reopen failed: %v\n%s", err, msg)
	}
	return nil
}

// TestVerif_C09Child is the body of the child process (not a check of its own).
func TestVerif_C09Child(t *testing.T) {
	jobFile := os.Getenv("VERIF_C09_CHILD_JOB")
	if jobFile == "" {
		t.Skip("only runs as a child of TestVerif_C09")
	}
	data, err := os.ReadFile(jobFile)
	if err != nil {
		t.Fatalf("job: %v", err)
	}
	var job vfC09ChildJob
	if err := json.Unmarshal(data, &job); err != nil {
		t.Fatalf("job: %v", err)
	}
	ever := map[uint32]bool{}
	for _, id := range job.EverAdded {
		ever[id] = true
	}
	st, err := vfOpenStore(job.Dir, &job.Conf)
	if err != nil {
		fmt.Printf("CHILD-VIOLATION: Open failed: %v\n", err)
		t.FailNow()
	}
	closed := false
	defer func() {
		if !closed {
			st.Close()
		}
	}()
	if v := vfCheckDurable(st, &job.Conf, job.Durable, ever, "child process"); v != nil {
		fmt.Printf("CHILD-VIOLATION: %s\n", strings.ReplaceAll(v.Msg, "\n", " "))
		t.FailNow()
	}
	for j := range job.Adds {
		d := &job.Adds[j]
		if len(d.Vec) != job.Conf.Dim || d.ID == 0 || ever[d.ID] {
			continue
		}
		if _, err := vfStoreAdd(st, &job.Conf, d); err != nil {
			fmt.Printf("CHILD-VIOLATION: add of document %d in the other process failed: %v\n", d.ID, err)
			t.FailNow()
		}
		ever[d.ID] = true
		job.Durable[d.ID] = d
		if j%2 == 0 {
			if err := st.Flush(); err != nil {
				fmt.Printf("CHILD-VIOLATION: Flush in the other process failed: %v\n", err)
				t.FailNow()
			}
		}
	}
	closed = true
	if err := st.Close(); err != nil {
		fmt.Printf("CHILD-VIOLATION: Close in the other process failed: %v\n", err)
		t.FailNow()
	}
}

func TestVerif_C09(t *testing.T) { vfCheck(t, "C09", vfC09Gen, vfC09Run) }
