package comet

// C05 — hybrid search = metadata pre-filter, per-modality top-k, fusion, ranking.
// Oracle: reference pipeline built from the C04 evaluator, the C01 model and the C03 model.

import (
	"fmt"
	"math"
	"sort"
	"testing"

	"pgregory.net/rapid"
)

type vfDoc struct {
	ID     uint32            `json:"id,omitempty"` // 0 => Add (auto id), else AddWithID
	Vec    []float32         `json:"vec,omitempty"`
	Text   string            `json:"text,omitempty"`
	Meta   map[string]vfMVal `json:"meta,omitempty"`
	BadVec bool              `json:"-"`
}

type vfHQuery struct {
	Vec     []float32     `json:"vec,omitempty"`
	Texts   []string      `json:"texts,omitempty"`
	Groups  [][]vfMFilter `json:"groups,omitempty"`
	AsGroup bool          `json:"as_groups,omitempty"` // WithMetadataGroups instead of WithMetadata
	K       int           `json:"k"`
	Thr     float32       `json:"thr,omitempty"`
	Fusion  string        `json:"fusion,omitempty"` // "" default | weighted_sum | reciprocal_rank | max | min
	WV      float64       `json:"wv,omitempty"`
	WT      float64       `json:"wt,omitempty"`
	RRFK    float64       `json:"rrf_k,omitempty"`
	// how the fusion reaches the search: "" = WithFusion(object built with the weights above);
	// "kind" = WithFusionKind(kind), i.e. the library's default configuration (weights 1 / 1, K 60);
	// "none" = nothing is set (only with Fusion == ""): the search's own default fusion
	FusionVia string `json:"fusion_via,omitempty"`
	Agg       string `json:"agg,omitempty"`
	NP        int    `json:"nprobes,omitempty"`
	Ef        int    `json:"ef,omitempty"`
}

type vfYOp struct {
	Op  string    `json:"op"` // add | remove | flush | search
	Doc *vfDoc    `json:"doc,omitempty"`
	Ref int       `json:"ref,omitempty"` // remove: ordinal of the add op (0-based among adds)
	Q   *vfHQuery `json:"q,omitempty"`
}

type vfC05Case struct {
	HasVec  bool        `json:"has_vector_index"`
	HasText bool        `json:"has_text_index"`
	HasMeta bool        `json:"has_metadata_index"`
	VecKind string      `json:"vec_kind"` // flat | hnsw | ivf
	Metric  string      `json:"metric"`
	Dim     int         `json:"dim"`
	Train   [][]float32 `json:"train,omitempty"`
	Ops     []vfYOp     `json:"ops"`
}

// positive filters only: they can never match a document that lacks the field (a document
// added without metadata is not known to the metadata index at all)
func vfGenPositiveFilter(rt *rapid.T, stored map[string][]vfMVal, metas []map[string]vfMVal) vfMFilter {
	// most of the time: a filter built from the metadata of one generated document, so that it matches
	if len(metas) > 0 && rapid.IntRange(0, 3).Draw(rt, "filter_from_doc") > 0 {
		meta := metas[rapid.IntRange(0, len(metas)-1).Draw(rt, "filter_doc")]
		var names []string
		for _, n := range vfMFieldNames {
			if _, ok := meta[n]; ok {
				names = append(names, n)
			}
		}
		if len(names) > 0 {
			name := rapid.SampledFrom(names).Draw(rt, "filter_field")
			v := meta[name]
			ops := []string{"eq", "exists", "in"}
			if vfIsNumericType(v.T) {
				ops = []string{"eq", "exists", "gte", "lte", "range"}
			}
			f := vfMFilter{Field: name, Op: rapid.SampledFrom(ops).Draw(rt, "filter_op")}
			switch f.Op {
			case "in":
				f.List = []vfMVal{v}
			case "range":
				lo, hi := v, v
				f.V, f.V2 = &lo, &hi
			case "exists":
			default:
				f.V = &v
			}
			return f
		}
	}
	for {
		f := vfGenMFilter(rt, stored)
		f.Not = false
		switch f.Op {
		case "ne", "not_in", "not_exists":
			continue
		}
		if vfCrossTyped(&f) {
			continue // numeric operands of the other Go type are C04's open finding KF-3: not generated here
		}
		return f
	}
}

func vfC05Gen(rt *rapid.T) vfC05Case {
	c := vfC05Case{}
	conf := rapid.IntRange(1, 7).Draw(rt, "configured")
	if rapid.IntRange(0, 3).Draw(rt, "all_three") > 0 {
		conf = 7
	}
	c.HasVec, c.HasText, c.HasMeta = conf&1 != 0, conf&2 != 0, conf&4 != 0
	c.VecKind = rapid.SampledFrom([]string{"flat", "flat", "flat", "hnsw", "ivf"}).Draw(rt, "vec_kind")
	kind := rapid.SampledFrom(vfMetrics).Draw(rt, "metric")
	c.Metric = string(kind)
	c.Dim = rapid.IntRange(1, 4).Draw(rt, "dim")
	g := vfNewVecGen(rt, c.Dim)
	if c.VecKind == "ivf" {
		c.Train = vfGenTrainingSet(rt, g, 3, 12, kind == Cosine)
	}
	// "big score" mode: a couple of distinct, large vectors shared by many documents, so that fused
	// scores are huge, equal in their vector part and differ only by small text scores
	big := c.HasVec && rapid.IntRange(0, 5).Draw(rt, "big_scores") == 0
	var bigPool [][]float32
	if big {
		if kind == Cosine {
			c.Metric = string(L2Squared)
			kind = L2Squared
		}
		for i := 0; i < 2; i++ {
			v := g.drawNonZero(rt, "big_vec")
			for j := range v {
				v[j] = float32(int(v[j]*3+0.5)) * 3000
			}
			if vfIsZero(v) {
				v[0] = 3000
			}
			bigPool = append(bigPool, v)
		}
	}
	stored := map[string][]vfMVal{}
	var metas []map[string]vfMVal
	var texts []string
	nAdds, nLive := 0, 0
	var liveRefs []int
	genQuery := func(rt *rapid.T) *vfHQuery {
		q := &vfHQuery{K: rapid.IntRange(1, nLive+2).Draw(rt, "k")}
		if rapid.IntRange(0, 24).Draw(rt, "k_extreme") == 0 {
			q.K = rapid.SampledFrom([]int{math.MaxInt32, math.MaxInt64, 1 << 40, 1000000}).Draw(rt, "k_huge")
		}
		what := rapid.IntRange(1, 7).Draw(rt, "query_modalities")
		if rapid.IntRange(0, 2).Draw(rt, "query_all_modalities") == 0 {
			what = 7
		}
		if what&1 != 0 {
			if kind == Cosine {
				q.Vec = g.drawNonZero(rt, "qv")
			} else {
				q.Vec = g.draw(rt, "qv")
			}
			if vfIsZero(q.Vec) {
				q.Vec[0] = 1 // an all-zero vector query of length > 0 is fine for L2 but keep it simple
			}
		}
		if what&2 != 0 {
			for j := 0; j < rapid.IntRange(1, 2).Draw(rt, "n_texts"); j++ {
				t := vfGenText(rt, "qt", 3)
				if len(texts) > 0 && rapid.IntRange(0, 2).Draw(rt, "query_from_doc_text") > 0 {
					t = texts[rapid.IntRange(0, len(texts)-1).Draw(rt, "query_doc_text")]
				}
				if t == "" {
					t = "fox"
				}
				q.Texts = append(q.Texts, t)
			}
		}
		if what&4 != 0 {
			ng := 1
			q.AsGroup = rapid.Bool().Draw(rt, "as_groups")
			if q.AsGroup {
				ng = rapid.IntRange(1, 2).Draw(rt, "n_groups")
			}
			for gi := 0; gi < ng; gi++ {
				var grp []vfMFilter
				for j := 0; j < rapid.IntRange(1, 2).Draw(rt, "n_filters"); j++ {
					grp = append(grp, vfGenPositiveFilter(rt, stored, metas))
				}
				q.Groups = append(q.Groups, grp)
			}
		}
		q.Fusion = rapid.SampledFrom([]string{"", "weighted_sum", "reciprocal_rank", "max", "min"}).Draw(rt, "fusion")
		q.WV = rapid.SampledFrom([]float64{1, 0, 0.5, 2, 3}).Draw(rt, "wv")
		q.WT = rapid.SampledFrom([]float64{1, 0, 0.25, 1.5, 3}).Draw(rt, "wt")
		q.RRFK = rapid.SampledFrom([]float64{60, 1, 0.5, 100}).Draw(rt, "rrf_k")
		switch rapid.IntRange(0, 3).Draw(rt, "fusion_via") {
		case 0:
			if q.Fusion == "" {
				q.FusionVia = "none"
			} else {
				q.FusionVia = "kind"
			}
		}
		if rapid.IntRange(0, 3).Draw(rt, "thr_on") == 0 {
			q.Thr = float32(rapid.Float64Range(0, 5).Draw(rt, "thr"))
		}
		q.Agg = rapid.SampledFrom([]string{"", "sum", "max", "mean"}).Draw(rt, "agg")
		if c.VecKind == "ivf" {
			q.NP = rapid.IntRange(0, 4).Draw(rt, "nprobes")
		}
		if c.VecKind == "hnsw" && rapid.Bool().Draw(rt, "ef_on") {
			q.Ef = rapid.IntRange(1, 40).Draw(rt, "ef")
		}
		return q
	}
	used := map[uint32]bool{}
	opGen := rapid.Custom(func(rt *rapid.T) vfYOp {
		w := rapid.IntRange(0, 99).Draw(rt, "opclass")
		switch {
		case w < 45 || nLive == 0 && w < 65:
			d := &vfDoc{}
			if rapid.IntRange(0, 3).Draw(rt, "explicit_id") > 0 {
				for {
					d.ID = uint32(1<<30 + rapid.IntRange(0, 1<<20).Draw(rt, "doc_id"))
					if !used[d.ID] {
						used[d.ID] = true
						break
					}
				}
			}
			mods := rapid.IntRange(1, 7).Draw(rt, "doc_modalities")
			if rapid.Bool().Draw(rt, "doc_all_modalities") {
				mods = 7
			}
			if mods&1 != 0 {
				d.Vec = g.drawNonZero(rt, "dv")
				if big {
					d.Vec = vfCloneF32(bigPool[rapid.IntRange(0, len(bigPool)-1).Draw(rt, "big_pick")])
				}
			}
			if mods&2 != 0 {
				d.Text = vfGenText(rt, "dt", 6)
				if d.Text != "" {
					texts = append(texts, d.Text)
				}
			}
			if mods&4 != 0 {
				d.Meta = map[string]vfMVal{}
				for _, name := range vfMFieldNames {
					if rapid.IntRange(0, 2).Draw(rt, "has_"+name) > 0 {
						v := vfGenMVal(rt, vfMFields[name], name)
						d.Meta[name] = v
						stored[name] = append(stored[name], v)
					}
				}
				if len(d.Meta) > 0 {
					metas = append(metas, d.Meta)
				}
			}
			liveRefs = append(liveRefs, nAdds)
			nAdds++
			nLive++
			return vfYOp{Op: "add", Doc: d}
		case w < 55 && nLive > 0:
			j := rapid.IntRange(0, len(liveRefs)-1).Draw(rt, "rm_idx")
			ref := liveRefs[j]
			liveRefs = append(liveRefs[:j:j], liveRefs[j+1:]...)
			nLive--
			return vfYOp{Op: "remove", Ref: ref}
		case w < 59:
			return vfYOp{Op: "flush"}
		default:
			return vfYOp{Op: "search", Q: genQuery(rt)}
		}
	})
	c.Ops = vfListOf(rt, "ops", opGen, 1, 45)
	c.Ops = append(c.Ops, vfYOp{Op: "search", Q: genQuery(rt)})
	return c
}

// vfSpyFusion wraps a Fusion and records whether Combine mutated its inputs.
type vfSpyFusion struct {
	inner   Fusion
	mutated bool
	called  bool
}

func (f *vfSpyFusion) Kind() FusionKind { return f.inner.Kind() }
func (f *vfSpyFusion) Combine(v, t map[uint32]float64) map[uint32]float64 {
	f.called = true
	v0, t0 := map[uint32]float64{}, map[uint32]float64{}
	for k, x := range v {
		v0[k] = x
	}
	for k, x := range t {
		t0[k] = x
	}
	out := f.inner.Combine(v, t)
	if !vfMapsBitEqual(v, v0) || !vfMapsBitEqual(t, t0) {
		f.mutated = true
	}
	return out
}

// vfHybridModel: the three reference models plus bookkeeping of which modalities a document has.
type vfHybridModel struct {
	vec  *vfVecModel
	text *vfTextModel
	meta *vfMetaModel
	live map[uint32]*vfDoc
}

func vfNewHybridModel(kind DistanceKind) *vfHybridModel {
	return &vfHybridModel{vec: vfNewVecModel(kind), text: vfNewTextModel(), meta: &vfMetaModel{docs: map[uint32]map[string]vfMVal{}}, live: map[uint32]*vfDoc{}}
}

func (m *vfHybridModel) add(id uint32, d *vfDoc, hasVec, hasText, hasMeta bool) {
	m.live[id] = d
	if hasVec && len(d.Vec) > 0 {
		m.vec.live[id] = d.Vec
	}
	if hasText && d.Text != "" {
		m.text.resident[id] = vfTokens(d.Text)
	}
	if hasMeta && len(d.Meta) > 0 {
		m.meta.docs[id] = d.Meta
	}
}

func (m *vfHybridModel) remove(id uint32) {
	delete(m.live, id)
	if _, ok := m.vec.live[id]; ok {
		delete(m.vec.live, id)
		m.vec.resident[id] = true
	}
	if _, ok := m.text.resident[id]; ok {
		m.text.deleted[id] = true
	}
	delete(m.meta.docs, id)
}

func (m *vfHybridModel) flush() {
	m.vec.resident = map[uint32]bool{}
	m.text.flush()
}

func vfBuildFusion(q *vfHQuery) (Fusion, error) {
	kind := FusionKind(q.Fusion)
	if q.Fusion == "" {
		return DefaultFusion(), nil
	}
	return NewFusion(kind, &FusionConfig{VectorWeight: q.WV, TextWeight: q.WT, K: q.RRFK})
}

func vfHybridExec(h HybridSearchIndex, q *vfHQuery, fusion Fusion) ([]HybridSearchResult, error) {
	s := h.NewSearch().WithK(q.K)
	if len(q.Vec) > 0 {
		s = s.WithVector(vfCloneF32(q.Vec))
	}
	if len(q.Texts) > 0 {
		s = s.WithText(q.Texts...)
	}
	if len(q.Groups) > 0 {
		if q.AsGroup {
			var gs []*FilterGroup
			for _, g := range q.Groups {
				fg := &FilterGroup{Logic: AND}
				for i := range g {
					fg.Filters = append(fg.Filters, vfToFilter(&g[i]))
				}
				gs = append(gs, fg)
			}
			s = s.WithMetadataGroups(gs...)
		} else {
			var fs []Filter
			for i := range q.Groups[0] {
				fs = append(fs, vfToFilter(&q.Groups[0][i]))
			}
			s = s.WithMetadata(fs...)
		}
	}
	if q.Thr > 0 {
		s = s.WithThreshold(q.Thr)
	}
	if q.Agg != "" {
		s = s.WithScoreAggregation(ScoreAggregationKind(q.Agg))
	}
	if q.NP > 0 {
		s = s.WithNProbes(q.NP)
	}
	if q.Ef > 0 {
		s = s.WithEfSearch(q.Ef)
	}
	switch {
	case q.FusionVia == "kind" && q.Fusion != "":
		s = s.WithFusionKind(FusionKind(q.Fusion))
	case q.FusionVia == "none" && q.Fusion == "":
		// the search's own default
	case fusion != nil:
		s = s.WithFusion(fusion)
	}
	return s.Execute()
}

type vfScored struct {
	id  uint32
	s   float64
	tol float64
}

// vfTopK returns the k best entries and whether the cut goes through a tie (within tolerance).
func vfTopK(l []vfScored, k int, ascending bool) ([]vfScored, bool) {
	sort.Slice(l, func(i, j int) bool {
		if ascending {
			return l[i].s < l[j].s
		}
		return l[i].s > l[j].s
	})
	if k <= 0 || k >= len(l) {
		return l, false
	}
	tie := math.Abs(l[k-1].s-l[k].s) <= l[k-1].tol+l[k].tol
	return l[:k], tie
}

func vfHasInternalTie(l []vfScored) bool {
	for i := 1; i < len(l); i++ {
		if math.Abs(l[i-1].s-l[i].s) <= l[i-1].tol+l[i].tol {
			return true
		}
	}
	return false
}

// vfHybridExpect computes the reference result of one hybrid query.
// exact=false means only validity may be asserted (a tie makes the candidate sets ambiguous,
// or the vector index is approximate). filterSet is nil when no filter was given.
func vfHybridExpect(m *vfHybridModel, c *vfC05Case, q *vfHQuery) (cands []vfCand, filterSet map[uint32]bool, vecElig, textElig map[uint32]bool, exact bool, emptyByFilter bool) {
	// an IVF index probing all of its (three) clusters is exact as well (C13): the nprobes override
	// must reach the vector index for that
	exact = c.VecKind == "flat" || len(q.Vec) == 0 || c.VecKind == "ivf" && q.NP >= 3
	var ids []uint32
	if len(q.Groups) > 0 {
		groups := q.Groups
		if !q.AsGroup {
			groups = groups[:1]
		}
		filterSet = map[uint32]bool{}
		for _, id := range m.meta.eval(groups, "") {
			filterSet[id] = true
			ids = append(ids, id)
		}
		if len(ids) == 0 {
			return nil, filterSet, nil, nil, true, true
		}
	}
	var V, T []vfScored
	vecElig, textElig = map[uint32]bool{}, map[uint32]bool{}
	if len(q.Vec) > 0 {
		var all []vfScored
		for _, cd := range m.vec.candidates(q.Vec, q.Thr, ids) {
			vecElig[cd.ID] = true
			if cd.Optional {
				exact = false
			}
			all = append(all, vfScored{cd.ID, cd.Want, cd.Tol})
		}
		var tie bool
		V, tie = vfTopK(all, q.K, true)
		if tie {
			exact = false
		}
	}
	if len(q.Texts) > 0 {
		perID := map[uint32][]float64{}
		for _, t := range q.Texts {
			var l []vfScored
			for id, s := range m.text.scores(t, ids) {
				textElig[id] = true
				l = append(l, vfScored{id, s, vfTextTol(s)})
			}
			top, tie := vfTopK(l, q.K, false)
			if tie {
				exact = false
			}
			for _, e := range top {
				perID[e.id] = append(perID[e.id], e.s)
			}
		}
		var all []vfScored
		for id, sc := range perID {
			var w float64
			switch q.Agg {
			case "max":
				w = sc[0]
				for _, s := range sc[1:] {
					w = math.Max(w, s)
				}
			case "mean":
				for _, s := range sc {
					w += s
				}
				w /= float64(len(sc))
			default:
				for _, s := range sc {
					w += s
				}
			}
			all = append(all, vfScored{id, w, 4 * vfTextTol(w) * float64(len(sc))})
		}
		var tie bool
		T, tie = vfTopK(all, q.K, false)
		if tie {
			exact = false
		}
	}
	fusion := q.Fusion
	if fusion == "" {
		fusion = "weighted_sum"
	}
	wv, wt, rk := q.WV, q.WT, q.RRFK
	if q.Fusion == "" || q.FusionVia == "kind" {
		wv, wt, rk = 1, 1, 60 // the documented default configuration
	}
	switch {
	case len(V) > 0 && len(T) > 0:
		vm, tm := map[uint32]vfScored{}, map[uint32]vfScored{}
		for _, e := range V {
			vm[e.id] = e
		}
		for _, e := range T {
			tm[e.id] = e
		}
		if fusion == "reciprocal_rank" && (vfHasInternalTie(V) || vfHasInternalTie(T)) {
			exact = false
		}
		rank := func(l []vfScored, id uint32) int {
			for i, e := range l {
				if e.id == id {
					return i
				}
			}
			return -1
		}
		union := map[uint32]bool{}
		for id := range vm {
			union[id] = true
		}
		for id := range tm {
			union[id] = true
		}
		for id := range union {
			v, hv := vm[id]
			t, ht := tm[id]
			var w, tol float64
			switch fusion {
			case "weighted_sum":
				if hv {
					w += v.s * wv
					tol += v.tol * wv
				}
				if ht {
					w += t.s * wt
					tol += t.tol * wt
				}
			case "max":
				switch {
				case hv && ht:
					w, tol = math.Max(v.s, t.s), v.tol+t.tol
				case hv:
					w, tol = v.s, v.tol
				default:
					w, tol = t.s, t.tol
				}
			case "min":
				if !(hv && ht) {
					continue
				}
				w, tol = math.Min(v.s, t.s), v.tol+t.tol
			case "reciprocal_rank":
				if hv {
					w += 1 / (rk + float64(rank(V, id)))
				}
				if ht {
					w += 1 / (rk + float64(rank(T, id)))
				}
			}
			cands = append(cands, vfCand{ID: id, Want: w, Tol: tol + 1e-9*(1+math.Abs(w))})
		}
	case len(V) > 0:
		for _, e := range V {
			cands = append(cands, vfCand{ID: e.id, Want: e.s, Tol: e.tol + 1e-12})
		}
	case len(T) > 0:
		for _, e := range T {
			cands = append(cands, vfCand{ID: e.id, Want: e.s, Tol: e.tol + 1e-12})
		}
	default:
		if len(q.Vec) == 0 && len(q.Texts) == 0 {
			for _, id := range ids { // metadata-only query: every filter match with score 1
				cands = append(cands, vfCand{ID: id, Want: 1, Tol: 0})
			}
		}
	}
	return cands, filterSet, vecElig, textElig, exact, false
}

func vfHybridHits(res []HybridSearchResult) []vfHit {
	out := make([]vfHit, len(res))
	for i, r := range res {
		out[i] = vfHit{ID: r.ID, Score: float32(r.Score)}
	}
	return out
}

// vfCompareHybrid is vfCompareTopK on float64 scores (descending).
func vfCompareHybrid(res []HybridSearchResult, cands []vfCand, k int) *vfViolation {
	byID := map[uint32]vfCand{}
	for _, c := range cands {
		byID[c.ID] = c
	}
	seen := map[uint32]bool{}
	for i, r := range res {
		if i > 0 && res[i-1].Score < r.Score {
			return vfFail("results not in descending score order at %d (%v then %v)", i, res[i-1].Score, r.Score)
		}
		if seen[r.ID] {
			return vfFail("id %d returned twice", r.ID)
		}
		seen[r.ID] = true
		c, ok := byID[r.ID]
		if !ok {
			return vfFail("id %d (score %v) returned, but the reference pipeline does not produce it", r.ID, r.Score)
		}
		if math.Abs(r.Score-c.Want) > c.Tol {
			return vfFail("id %d: score %v, reference pipeline %v (tolerance %g)", r.ID, r.Score, c.Want, c.Tol)
		}
	}
	want := len(cands)
	if k < want {
		want = k
	}
	if len(res) != want {
		return vfFail("%d results, the reference pipeline yields %d (k=%d, %d fused candidates)", len(res), want, k, len(cands))
	}
	if len(res) > 0 {
		worst := byID[res[len(res)-1].ID]
		for _, c := range cands {
			if !seen[c.ID] && c.Want-c.Tol > worst.Want+worst.Tol {
				return vfFail("id %d (reference score %v) is better than the returned id %d (%v) but was left out", c.ID, c.Want, worst.ID, worst.Want)
			}
		}
	}
	return nil
}

func vfNewVectorIndexOfKind(kindName string, dim int, metric DistanceKind, train [][]float32) (VectorIndex, error) {
	switch kindName {
	case "hnsw":
		return NewHNSWIndex(dim, metric, 8, 64, 64)
	case "ivf":
		idx, err := NewIVFIndex(dim, 3, metric)
		if err != nil {
			return nil, err
		}
		nodes := make([]VectorNode, len(train))
		for i, v := range train {
			nodes[i] = *NewVectorNodeWithID(uint32(i+1), vfCloneF32(v))
		}
		if err := idx.Train(nodes); err != nil {
			return nil, err
		}
		return idx, nil
	case "pq", "ivfpq":
		var idx VectorIndex
		var err error
		if kindName == "pq" {
			idx, err = NewPQIndex(dim, metric, 1, 2)
		} else {
			idx, err = NewIVFPQIndex(dim, metric, 2, 1, 2)
		}
		if err != nil {
			return nil, err
		}
		nodes := make([]VectorNode, len(train))
		for i, v := range train {
			nodes[i] = *NewVectorNodeWithID(uint32(i+1), vfCloneF32(v))
		}
		if err := idx.Train(nodes); err != nil {
			return nil, err
		}
		return idx, nil
	default:
		return NewFlatIndex(dim, metric)
	}
}

func vfC05Run(c vfC05Case, ctx *vfCtx) *vfViolation {
	ctx.HistoryLen("history", len(c.Ops))
	// somebody else in the process starts from the default fusion configuration and changes it: the
	// searches below that rely on the defaults (WithFusionKind, no fusion set) must not notice
	if dc := DefaultFusionConfig(); dc != nil {
		dc.VectorWeight, dc.TextWeight, dc.K = 5, 0.25, 2
	}
	kind := DistanceKind(c.Metric)
	var vi VectorIndex
	var ti TextIndex
	var mi MetadataIndex
	if c.HasVec {
		var err error
		if vi, err = vfNewVectorIndexOfKind(c.VecKind, c.Dim, kind, c.Train); err != nil {
			return vfFail("building the %s vector index: %v", c.VecKind, err)
		}
	}
	if c.HasText {
		ti = NewBM25SearchIndex()
	}
	if c.HasMeta {
		mi = NewRoaringMetadataIndex()
	}
	h := NewHybridSearchIndex(vi, ti, mi)
	m := vfNewHybridModel(kind)
	var addIDs []uint32
	ctx.Class(fmt.Sprintf("configured=v%vt%vm%v", c.HasVec, c.HasText, c.HasMeta))

	for i := range c.Ops {
		op := &c.Ops[i]
		switch op.Op {
		case "add":
			d := op.Doc
			if d == nil || len(d.Vec) > 0 && (len(d.Vec) != c.Dim || kind == Cosine && vfIsZero(d.Vec)) {
				addIDs = append(addIDs, 0)
				continue
			}
			var id uint32
			var err error
			if d.ID == 0 {
				id, err = h.Add(vfCloneF32(d.Vec), d.Text, vfMetaToGo(d.Meta))
			} else {
				id = d.ID
				if _, dup := m.live[id]; dup {
					addIDs = append(addIDs, 0)
					continue
				}
				err = h.AddWithID(id, vfCloneF32(d.Vec), d.Text, vfMetaToGo(d.Meta))
			}
			if err != nil {
				return vfFail("op %d: hybrid add failed: %v", i, err)
			}
			if _, dup := m.live[id]; dup {
				return vfFail("op %d: Add returned id %d which is already in use", i, id)
			}
			addIDs = append(addIDs, id)
			m.add(id, d, c.HasVec, c.HasText, c.HasMeta)
		case "remove":
			if op.Ref < 0 || op.Ref >= len(addIDs) || addIDs[op.Ref] == 0 {
				continue
			}
			id := addIDs[op.Ref]
			if _, ok := m.live[id]; !ok {
				continue
			}
			if err := h.Remove(id); err != nil {
				return vfFail("op %d: Remove(%d): %v", i, id, err)
			}
			m.remove(id)
		case "flush":
			if err := h.Flush(); err != nil {
				return vfFail("op %d: Flush: %v", i, err)
			}
			m.flush()
		case "search":
			q := op.Q
			if q == nil || q.K < 1 || len(q.Vec) > 0 && (len(q.Vec) != c.Dim || kind == Cosine && vfIsZero(q.Vec)) {
				continue
			}
			inner, err := vfBuildFusion(q)
			if err != nil {
				return vfFail("op %d: NewFusion(%q): %v", i, q.Fusion, err)
			}
			spy := &vfSpyFusion{inner: inner}
			res, err := vfHybridExec(h, q, spy)
			unconfigured := len(q.Vec) > 0 && !c.HasVec || len(q.Texts) > 0 && !c.HasText || len(q.Groups) > 0 && !c.HasMeta
			if unconfigured {
				if err == nil && c.HasMeta && len(q.Groups) > 0 {
					// the filter is evaluated first; when it matches nothing both clauses apply
					// ("a filter that matches nothing yields an empty result" / "an unconfigured
					// modality is an error"): either outcome is accepted
					if _, _, _, _, _, emptyByFilter := vfHybridExpect(m, &c, q); emptyByFilter && len(res) == 0 {
						ctx.Class("unconfigured_modality_but_filter_empty")
						continue
					}
				}
				if err == nil {
					return vfFail("op %d: querying a modality that is not configured succeeded (vector index %v, text index %v, metadata index %v; query vector %v texts %d filters %d)", i, c.HasVec, c.HasText, c.HasMeta, len(q.Vec) > 0, len(q.Texts), len(q.Groups))
				}
				ctx.Class("unconfigured_modality_error")
				continue
			}
			if err != nil {
				return vfFail("op %d: hybrid search failed: %v", i, err)
			}
			ctx.ClassIf(q.FusionVia == "kind", "fusion_set_by_kind(default_config)")
			ctx.ClassIf(q.FusionVia == "none", "library_default_fusion")
			if spy.mutated {
				return vfFail("op %d: the %s fusion mutated the result maps it was given", i, inner.Kind())
			}
			desc := fmt.Sprintf("op %d: hybrid search (vector=%v texts=%q filter=%s k=%d thr=%v fusion=%q agg=%q) over %d live documents", i, len(q.Vec) > 0, q.Texts, vfDescribeFilters(q.Groups), q.K, q.Thr, q.Fusion, q.Agg, len(m.live))
			cands, filterSet, vecElig, textElig, exact, emptyByFilter := vfHybridExpect(m, &c, q)
			// validity (always)
			if len(res) > q.K {
				return vfFail("%s: %d results for k=%d", desc, len(res), q.K)
			}
			seen := map[uint32]bool{}
			for r, x := range res {
				if seen[x.ID] {
					return vfFail("%s: id %d returned twice", desc, x.ID)
				}
				seen[x.ID] = true
				if _, ok := m.live[x.ID]; !ok {
					return vfFail("%s: id %d returned but it is not a live document", desc, x.ID)
				}
				if filterSet != nil && !filterSet[x.ID] {
					return vfFail("%s: id %d returned but it does not match the metadata filter", desc, x.ID)
				}
				if (len(q.Vec) > 0 || len(q.Texts) > 0) && !vecElig[x.ID] && !textElig[x.ID] {
					return vfFail("%s: id %d (score %v) returned although it is neither a vector candidate nor a text match inside the filtered set", desc, x.ID, x.Score)
				}
				if r > 0 && res[r-1].Score < x.Score {
					return vfFail("%s: results not in descending score order at rank %d", desc, r)
				}
			}
			if emptyByFilter && len(res) != 0 {
				return vfFail("%s: the filter matches nothing but %d results came back", desc, len(res))
			}
			if !exact {
				ctx.Class("validity_only(tie_or_approximate_index)")
				continue
			}
			if v := vfCompareHybrid(res, cands, q.K); v != nil {
				v.Msg = desc + ": " + v.Msg
				return v
			}
			ctx.Class("exact_pipeline_checked")
			ctx.ClassIf(spy.called, "fusion_invoked")
			if len(q.Vec) > 0 && len(q.Texts) > 0 && len(q.Groups) > 0 && len(cands) > 0 && (spy.called || q.FusionVia != "") {
				ctx.NonTrivial()
			}
		}
	}
	return nil
}

func TestVerif_C05(t *testing.T) { vfCheck(t, "C05", vfC05Gen, vfC05Run) }
