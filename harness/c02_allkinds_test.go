package comet

// C02 — every vector index kind returns only live, eligible, correctly scored, ordered hits.
// Oracle: soundness invariants + per-kind score definition + metamorphic relations
// (node search == vector search, multi-query == aggregate of single queries, flush invariance).

import (
	"fmt"
	"math"
	"sort"
	"testing"

	"pgregory.net/rapid"
)

type vfSOp struct {
	Op    string      `json:"op"` // add | add_bad | remove | flush | search
	ID    uint32      `json:"id,omitempty"`
	Vec   []float32   `json:"vec,omitempty"`
	Qs    [][]float32 `json:"qs,omitempty"`
	Nodes []uint32    `json:"nodes,omitempty"`
	K     int         `json:"k,omitempty"`
	Thr   float32     `json:"thr,omitempty"`
	IDs   []uint32    `json:"ids,omitempty"`
	Agg   string      `json:"agg,omitempty"`
	NP    int         `json:"nprobes,omitempty"`
	Ef    int         `json:"ef,omitempty"`
}

type vfC02Case struct {
	Kind   string      `json:"kind"` // flat | hnsw | ivf | pq | ivfpq
	Metric string      `json:"metric"`
	Dim    int         `json:"dim"`
	M      int         `json:"m"`     // hnsw M, or PQ M
	EfC    int         `json:"ef_c"`  // hnsw
	EfS    int         `json:"ef_s"`  // hnsw
	NList  int         `json:"nlist"` // ivf, ivfpq
	NBits  int         `json:"nbits"` // pq, ivfpq
	Train  [][]float32 `json:"train,omitempty"`
	Ops    []vfSOp     `json:"ops"`
}

var vfKinds = []string{"flat", "hnsw", "ivf", "pq", "ivfpq"}

func vfC02Gen(rt *rapid.T) vfC02Case {
	c := vfC02Case{}
	c.Kind = rapid.SampledFrom(vfKinds).Draw(rt, "kind")
	kind := rapid.SampledFrom(vfMetrics).Draw(rt, "metric")
	c.Metric = string(kind)
	switch c.Kind {
	case "pq", "ivfpq":
		c.M = rapid.IntRange(1, 4).Draw(rt, "pq_m")
		c.Dim = c.M * rapid.IntRange(1, 3).Draw(rt, "dsub")
		c.NBits = rapid.IntRange(1, 5).Draw(rt, "nbits")
		c.NList = rapid.IntRange(1, 4).Draw(rt, "nlist")
	case "hnsw":
		c.Dim = rapid.IntRange(1, 8).Draw(rt, "dim")
		c.M = rapid.IntRange(2, 8).Draw(rt, "hnsw_m")
		c.EfC = rapid.IntRange(4, 64).Draw(rt, "efc")
		c.EfS = rapid.IntRange(4, 64).Draw(rt, "efs")
	default:
		c.Dim = rapid.IntRange(1, 8).Draw(rt, "dim")
		c.NList = rapid.IntRange(1, 6).Draw(rt, "nlist")
	}
	g := vfNewVecGen(rt, c.Dim)
	minTrain := 0
	switch c.Kind {
	case "ivf":
		minTrain = c.NList
	case "pq":
		minTrain = 1 << c.NBits
	case "ivfpq":
		minTrain = 1 << c.NBits
		if c.NList*10 > minTrain {
			minTrain = c.NList * 10
		}
	}
	if minTrain > 0 {
		hi := minTrain + 30
		if rapid.IntRange(0, 9).Draw(rt, "big_train") == 0 {
			hi = 200
		}
		c.Train = vfGenTrainingSet(rt, g, minTrain, hi, kind == Cosine)
	}
	used := map[uint32]bool{}
	var live, removed, all []uint32
	genQuery := func(rt *rapid.T) []float32 {
		if kind == Cosine {
			return g.drawNonZero(rt, "q")
		}
		return g.draw(rt, "q")
	}
	opGen := rapid.Custom(func(rt *rapid.T) vfSOp {
		w := rapid.IntRange(0, 99).Draw(rt, "opclass")
		switch {
		case w < 40 || len(all) == 0:
			var v []float32
			if len(c.Train) > 0 && rapid.IntRange(0, 3).Draw(rt, "from_train") == 0 {
				v = vfCloneF32(c.Train[rapid.IntRange(0, len(c.Train)-1).Draw(rt, "train_idx")])
			} else {
				v = g.draw(rt, "v")
			}
			if kind == Cosine && vfIsZero(v) {
				return vfSOp{Op: "add_bad", ID: vfGenFreshID(rt, used), Vec: v}
			}
			id := vfGenFreshID(rt, used)
			live = append(live, id)
			all = append(all, id)
			return vfSOp{Op: "add", ID: id, Vec: v}
		case w < 52:
			var id uint32
			switch r := rapid.IntRange(0, 9).Draw(rt, "rmclass"); {
			case r < 7 && len(live) > 0:
				j := 0
				if rapid.Bool().Draw(rt, "rm_notfirst") {
					j = rapid.IntRange(0, len(live)-1).Draw(rt, "rm_idx")
				}
				id = live[j]
				live = append(live[:j:j], live[j+1:]...)
				removed = append(removed, id)
			case r < 9 && len(removed) > 0:
				id = removed[rapid.IntRange(0, len(removed)-1).Draw(rt, "rm_again")]
			default:
				id = uint32(rapid.IntRange(200000, 200005).Draw(rt, "rm_unknown"))
			}
			return vfSOp{Op: "remove", ID: id, Vec: vfGenRemovePayload(rt, g)}
		case w < 60:
			return vfSOp{Op: "flush"}
		default:
			op := vfSOp{Op: "search"}
			nq := rapid.IntRange(0, 4).Draw(rt, "n_queries")
			for j := 0; j < nq; j++ {
				if j > 0 && rapid.IntRange(0, 3).Draw(rt, "repeat_query") == 0 {
					op.Qs = append(op.Qs, vfCloneF32(op.Qs[0]))
				} else {
					op.Qs = append(op.Qs, genQuery(rt))
				}
			}
			nn := rapid.IntRange(0, 2).Draw(rt, "n_nodes")
			if nq == 0 && nn == 0 {
				nn = 1
			}
			for j := 0; j < nn; j++ {
				switch r := rapid.IntRange(0, 9).Draw(rt, "node_class"); {
				case r < 7 && len(live) > 0:
					op.Nodes = append(op.Nodes, live[rapid.IntRange(0, len(live)-1).Draw(rt, "node_live")])
				case r < 9 && len(removed) > 0:
					op.Nodes = append(op.Nodes, removed[rapid.IntRange(0, len(removed)-1).Draw(rt, "node_removed")])
				default:
					op.Nodes = append(op.Nodes, uint32(rapid.IntRange(300000, 300003).Draw(rt, "node_unknown")))
				}
			}
			if len(op.Qs)+len(op.Nodes) > 4 {
				op.Nodes = op.Nodes[:4-len(op.Qs)]
			}
			op.K = vfGenK(rt, -2, len(live), 2)
			if rapid.IntRange(0, 2).Draw(rt, "thr_on") == 0 {
				op.Thr = float32(rapid.Float64Range(0, 6).Draw(rt, "thr"))
			}
			op.IDs = vfGenIDSubset(rt, all)
			op.Agg = rapid.SampledFrom([]string{"", "sum", "max", "mean"}).Draw(rt, "agg")
			op.NP = rapid.IntRange(-1, c.NList+1).Draw(rt, "nprobes")
			if rapid.Bool().Draw(rt, "ef_override") {
				op.Ef = rapid.IntRange(-1, 80).Draw(rt, "ef")
			}
			return op
		}
	})
	c.Ops = vfListOf(rt, "ops", opGen, 1, 50)
	c.Ops = append(c.Ops, vfSOp{Op: "search", Qs: [][]float32{genQuery(rt), genQuery(rt)}, K: rapid.IntRange(1, 6).Draw(rt, "k_last"), Agg: rapid.SampledFrom([]string{"sum", "max", "mean"}).Draw(rt, "agg_last"), NP: c.NList})
	return c
}

// vfIndexUT wraps one index of any kind together with what the oracle needs.
type vfIndexUT struct {
	kind   string
	metric DistanceKind
	dim    int
	nlist  int
	idx    VectorIndex
}

func vfBuildIndex(c *vfC02Case) (*vfIndexUT, error) {
	u := &vfIndexUT{kind: c.Kind, metric: DistanceKind(c.Metric), dim: c.Dim, nlist: c.NList}
	var err error
	switch c.Kind {
	case "flat":
		u.idx, err = NewFlatIndex(c.Dim, u.metric)
	case "hnsw":
		u.idx, err = NewHNSWIndex(c.Dim, u.metric, c.M, c.EfC, c.EfS)
	case "ivf":
		u.idx, err = NewIVFIndex(c.Dim, c.NList, u.metric)
	case "pq":
		u.idx, err = NewPQIndex(c.Dim, u.metric, c.M, c.NBits)
	case "ivfpq":
		u.idx, err = NewIVFPQIndex(c.Dim, u.metric, c.NList, c.M, c.NBits)
	default:
		err = fmt.Errorf("unknown kind %q", c.Kind)
	}
	if err != nil {
		return nil, err
	}
	if len(c.Train) > 0 {
		train := make([]VectorNode, len(c.Train))
		for i, v := range c.Train {
			train[i] = *NewVectorNodeWithID(uint32(i+1), vfCloneF32(v))
		}
		if err := u.idx.Train(train); err != nil {
			return nil, fmt.Errorf("Train(%d vectors): %w", len(train), err)
		}
	}
	return u, nil
}

func (u *vfIndexUT) stored(id uint32) []float32 {
	switch x := u.idx.(type) {
	case *FlatIndex:
		return vfFlatStored(x, id)
	case *HNSWIndex:
		return vfHNSWStored(x, id)
	case *IVFIndex:
		return vfIVFStored(x, id)
	case *PQIndex:
		return vfPQViewOf(x).Stored[id]
	case *IVFPQIndex:
		return vfIVFPQViewOf(x).Stored[id]
	}
	return nil
}

// exhaustive reports whether a search with these parameters scans every live vector.
func (u *vfIndexUT) exhaustive(np int) bool {
	switch u.kind {
	case "flat", "pq":
		return true
	case "ivf", "ivfpq":
		return np <= 0 || np >= u.nlist
	}
	return false
}

// scorer returns the reference single-query score of a live id for an ORIGINAL query vector.
func (u *vfIndexUT) scorer(model map[uint32][]float32, q []float32) func(id uint32) (float64, float64) {
	switch x := u.idx.(type) {
	case *PQIndex:
		vw := vfIVFPQView{vfPQView: vfPQViewOf(x)}
		return vfPQScorer(&vw, false, u.metric, q)
	case *IVFPQIndex:
		vw := vfIVFPQViewOf(x)
		return vfPQScorer(&vw, true, u.metric, q)
	}
	return func(id uint32) (float64, float64) { return vfOracleDist(u.metric, q, model[id]) }
}

func vfPQScorer(vw *vfIVFPQView, ivf bool, metric DistanceKind, q []float32) func(id uint32) (float64, float64) {
	qp := vfRefPreprocess(metric, q)
	dim := len(q)
	eps := 4 * float64(dim/2+6) * vfEps32
	return func(id uint32) (float64, float64) {
		rec := vfRecon(&vw.vfPQView, vw.Codes[id])
		var s, mag float64
		for d := range rec {
			x := qp[d]
			if ivf {
				cd := float64(vw.Centroids[vw.ListOf[id]][d])
				x -= cd
				mag += math.Abs(cd)
			}
			diff := x - rec[d]
			s += diff * diff
		}
		w := math.Sqrt(s)
		return w, eps*(w+vfNorm64(qp)+vfNorm64(rec)+mag) + 1e-30
	}
}

func (u *vfIndexUT) search(qs [][]float32, nodes []uint32, op *vfSOp, k int) ([]vfHit, error) {
	s := u.idx.NewSearch().WithK(k).WithThreshold(op.Thr).WithNProbes(op.NP)
	if len(qs) > 0 {
		cp := make([][]float32, len(qs))
		for i := range qs {
			cp[i] = vfCloneF32(qs[i])
		}
		s = s.WithQuery(cp...)
	}
	if len(nodes) > 0 {
		s = s.WithNode(nodes...)
	}
	if len(op.IDs) > 0 {
		s = s.WithDocumentIDs(op.IDs...)
	}
	if op.Agg != "" {
		s = s.WithScoreAggregation(ScoreAggregationKind(op.Agg))
	}
	if op.Ef != 0 {
		s = s.WithEfSearch(op.Ef)
	}
	r, err := s.Execute()
	return vfHitsOf(r), err
}

// vfHitsEqualAsMaps: two result lists of the same deterministic computation must agree on the
// score at every rank and on the score of every id they share; an id may be present in only
// one of them if it sits in the tie group at the cut (equal scores are ordered arbitrarily by
// the aggregation step, so the k-th boundary may cut a tie group anywhere).
func vfHitsEqualAsMaps(a, b []vfHit) (bool, string) {
	if len(a) != len(b) {
		return false, fmt.Sprintf("%d vs %d results", len(a), len(b))
	}
	if len(a) == 0 {
		return true, ""
	}
	ma, mb := map[uint32]float32{}, map[uint32]float32{}
	for _, h := range a {
		ma[h.ID] = h.Score
	}
	for _, h := range b {
		mb[h.ID] = h.Score
	}
	last := a[len(a)-1].Score
	for i, h := range b {
		if math.Float32bits(a[i].Score) != math.Float32bits(h.Score) {
			return false, fmt.Sprintf("rank %d scores %v vs %v", i, a[i].Score, h.Score)
		}
		s, ok := ma[h.ID]
		if !ok {
			if h.Score != last {
				return false, fmt.Sprintf("id %d (score %v) only in the second result and not in the tie group at the cut (%v)", h.ID, h.Score, last)
			}
			continue
		}
		if math.Float32bits(s) != math.Float32bits(h.Score) {
			return false, fmt.Sprintf("id %d scores %v vs %v", h.ID, s, h.Score)
		}
	}
	for _, h := range a {
		if _, ok := mb[h.ID]; !ok && h.Score != last {
			return false, fmt.Sprintf("id %d (score %v) only in the first result and not in the tie group at the cut (%v)", h.ID, h.Score, last)
		}
	}
	return true, ""
}

func vfAggFold32(kind string, scores []float32) float32 {
	switch kind {
	case "max":
		m := scores[0]
		for _, s := range scores[1:] {
			if s > m {
				m = s
			}
		}
		return m
	case "mean":
		var sum float32
		for _, s := range scores {
			sum += s
		}
		return sum / float32(len(scores))
	default:
		var sum float32
		for _, s := range scores {
			sum += s
		}
		return sum
	}
}

func vfC02Run(c vfC02Case, ctx *vfCtx) *vfViolation {
	ctx.HistoryLen("history", len(c.Ops))
	u, err := vfBuildIndex(&c)
	if err != nil {
		return vfFail("building a %s index (dim %d, M %d, nbits %d, nlist %d): %v", c.Kind, c.Dim, c.M, c.NBits, c.NList, err)
	}
	ctx.Class("kind=" + c.Kind)
	kind := u.metric
	live := map[uint32][]float32{}
	resident := map[uint32]bool{}
	var recent []vfSOp

	// executes a search op and checks clauses 1-4; returns the hits
	checkSearch := func(i int, op *vfSOp) *vfViolation {
		nodesOK := true
		for _, nd := range op.Nodes {
			if _, ok := live[nd]; !ok {
				nodesOK = false
			}
		}
		for _, q := range op.Qs {
			if len(q) != c.Dim || kind == Cosine && vfIsZero(q) {
				return nil // outside the domain (replays only)
			}
		}
		if len(op.Qs) == 0 && len(op.Nodes) == 0 {
			return nil
		}
		hits, err := u.search(op.Qs, op.Nodes, op, op.K)
		if !nodesOK {
			if err == nil {
				return vfFail("op %d: search from node ids %v succeeded although one of them is unknown or removed", i, op.Nodes)
			}
			ctx.Class("search_with_bad_node_id")
			return nil
		}
		if err != nil {
			return vfFail("op %d: search(%d queries, nodes %v): %v", i, len(op.Qs), op.Nodes, err)
		}
		// (1) validity
		var restrict map[uint32]bool
		if len(op.IDs) > 0 {
			restrict = map[uint32]bool{}
			for _, id := range op.IDs {
				restrict[id] = true
			}
		}
		seen := map[uint32]bool{}
		for r, h := range hits {
			if _, ok := live[h.ID]; !ok {
				return vfFail("op %d: %s returned id %d which is not live (removed or never added)", i, c.Kind, h.ID)
			}
			if restrict != nil && !restrict[h.ID] {
				return vfFail("op %d: %s returned id %d outside the document-id restriction %v", i, c.Kind, h.ID, op.IDs)
			}
			if seen[h.ID] {
				return vfFail("op %d: %s returned id %d twice", i, c.Kind, h.ID)
			}
			seen[h.ID] = true
			if r > 0 && hits[r-1].Score > h.Score {
				return vfFail("op %d: %s results not in ascending score order at rank %d (%v, %v)", i, c.Kind, r, hits[r-1].Score, h.Score)
			}
			if math.IsNaN(float64(h.Score)) {
				return vfFail("op %d: NaN score for id %d", i, h.ID)
			}
		}
		maxN := vfExpectedCount(op.K, len(live))
		if len(hits) > maxN {
			return vfFail("op %d: %d results for k=%d with %d live vectors", i, len(hits), op.K, len(live))
		}
		// all query vectors of this search: explicit ones + stored vectors of the nodes
		type qsrc struct {
			q    []float32
			node uint32
		}
		var all []qsrc
		for _, q := range op.Qs {
			all = append(all, qsrc{q: q})
		}
		for _, nd := range op.Nodes {
			st := u.stored(nd)
			if st == nil {
				return vfFail("op %d: live node %d has no stored vector", i, nd)
			}
			all = append(all, qsrc{q: st, node: nd})
		}
		// (2) single query: the score is the kind's definition
		if len(all) == 1 {
			sc := u.scorer(live, all[0].q)
			for _, h := range hits {
				want, tol := sc(h.ID)
				if all[0].node != 0 && kind == Cosine {
					tol += 8 * vfEps32 * float64(c.Dim) // the stored vector is re-normalised once more
				}
				if math.Abs(float64(h.Score)-want) > tol {
					return vfFail("op %d: %s id %d: score %v, the kind's definition gives %v (tol %g)", i, c.Kind, h.ID, h.Score, want, tol)
				}
				if op.Thr > 0 && float64(h.Score) > float64(op.Thr) {
					return vfFail("op %d: %s id %d: score %v above the threshold %v", i, c.Kind, h.ID, h.Score, op.Thr)
				}
			}
			// exhaustive kinds: exact top-k by that score
			if u.exhaustive(op.NP) {
				var cands []vfCand
				for id := range live {
					if restrict != nil && !restrict[id] {
						continue
					}
					want, tol := sc(id)
					cd := vfCand{ID: id, Want: want, Tol: tol}
					if op.Thr > 0 {
						if want-tol > float64(op.Thr) {
							continue
						}
						if want+tol > float64(op.Thr) {
							cd.Optional = true
						}
					}
					cands = append(cands, cd)
				}
				if v := vfCompareTopK(hits, cands, op.K, true); v != nil {
					v.Msg = fmt.Sprintf("op %d: %s exhaustive single-query search (k=%d thr=%v): %s", i, c.Kind, op.K, op.Thr, v.Msg)
					return v
				}
			}
		}
		// (2b) every kind, tolerance-free: a threshold equal to a score the kind itself reports keeps
		// exactly the hits up to that score (candidate generation does not depend on k or threshold)
		if len(all) == 1 && all[0].node == 0 && i%2 == 0 {
			// (HNSW: the same k in both searches, so that an implementation whose beam width follows k is
			// compared with itself; for the other kinds candidate generation cannot depend on k)
			openK := 0
			if c.Kind == "hnsw" {
				openK = op.K
			}
			open, err := u.search([][]float32{all[0].q}, nil, &vfSOp{IDs: op.IDs, NP: op.NP, Ef: op.Ef}, openK)
			if err != nil {
				return vfFail("op %d: unthresholded search failed: %v", i, err)
			}
			if len(open) > 0 {
				if thr := open[(i/2)%len(open)].Score; thr > 0 {
					got, err := u.search([][]float32{all[0].q}, nil, &vfSOp{Thr: thr, IDs: op.IDs, NP: op.NP, Ef: op.Ef}, op.K)
					if err != nil {
						return vfFail("op %d: search with threshold %v failed: %v", i, thr, err)
					}
					if v := vfThresholdRelation(open, got, thr, op.K); v != nil {
						v.Msg = fmt.Sprintf("op %d: %s: %s", i, c.Kind, v.Msg)
						return v
					}
					ctx.Class("threshold_at_a_reported_score")
				}
			}
		}
		// (3) node search == search with the node's stored vector
		if len(op.Nodes) > 0 {
			var qs [][]float32
			for _, s := range all {
				qs = append(qs, s.q)
			}
			viaVec, err := u.search(qs, nil, op, op.K)
			if err != nil {
				return vfFail("op %d: search with the stored vectors of nodes %v failed: %v", i, op.Nodes, err)
			}
			if ok, why := vfHitsEqualAsMaps(hits, viaVec); !ok {
				return vfFail("op %d: %s search from nodes %v differs from the search with their stored vectors: %s", i, c.Kind, op.Nodes, why)
			}
			ctx.Class("node_search_equivalence_checked")
		}
		// (4) multi-query == aggregate of the separately executed single queries
		if len(all) >= 2 {
			perID := map[uint32][]float32{}
			ambiguous := false
			for _, s := range all {
				single, err := u.search([][]float32{s.q}, nil, &vfSOp{Thr: op.Thr, IDs: op.IDs, NP: op.NP, Ef: op.Ef}, 0)
				if err != nil {
					return vfFail("op %d: single-query search failed: %v", i, err)
				}
				kk := vfExpectedCount(op.K, len(single))
				if kk < len(single) && single[kk-1].Score == single[kk].Score {
					ambiguous = true // the per-query truncation cuts through a tie group
				}
				for _, h := range single[:kk] {
					perID[h.ID] = append(perID[h.ID], h.Score)
				}
			}
			if ambiguous {
				ctx.Class("multi_query_tie_at_truncation(validity only)")
			} else {
				var cands []vfCand
				for id, sc := range perID {
					w := float64(vfAggFold32(op.Agg, sc))
					cands = append(cands, vfCand{ID: id, Want: w, Tol: 4 * vfEps32 * float64(len(sc)) * (math.Abs(w) + 1e-30)})
				}
				if v := vfCompareTopK(hits, cands, op.K, true); v != nil {
					v.Msg = fmt.Sprintf("op %d: %s multi-query search (%d queries, agg=%q, k=%d) vs the %s of the single-query results: %s", i, c.Kind, len(all), op.Agg, op.K, op.Agg, v.Msg)
					return v
				}
				overlap := false
				for _, sc := range perID {
					if len(sc) > 1 {
						overlap = true
					}
				}
				if overlap {
					ctx.NonTrivial()
					ctx.Class("multi_query_with_overlapping_hits")
				}
			}
		}
		if len(resident) > 0 || restrict != nil && len(hits) > 0 {
			ctx.NonTrivial()
		}
		ctx.ClassIf(len(resident) > 0, "search_with_unflushed_removal")
		ctx.Class("searches")
		return nil
	}

	for i := range c.Ops {
		op := c.Ops[i]
		switch op.Op {
		case "add":
			if len(op.Vec) != c.Dim || kind == Cosine && vfIsZero(op.Vec) || op.ID == 0 {
				continue
			}
			if _, dup := live[op.ID]; dup || resident[op.ID] {
				continue
			}
			if err := u.idx.Add(*NewVectorNodeWithID(op.ID, vfCloneF32(op.Vec))); err != nil {
				return vfFail("op %d: %s Add(%d): %v", i, c.Kind, op.ID, err)
			}
			live[op.ID] = op.Vec
		case "add_bad":
			if err := u.idx.Add(*NewVectorNodeWithID(op.ID, vfCloneF32(op.Vec))); err == nil {
				return vfFail("op %d: %s Add of an invalid vector succeeded", i, c.Kind)
			}
		case "remove":
			err := u.idx.Remove(*NewVectorNodeWithID(op.ID, vfCloneF32(op.Vec)))
			_, isLive := live[op.ID]
			if isLive && err != nil {
				return vfFail("op %d: %s Remove(%d) of a live vector failed: %v", i, c.Kind, op.ID, err)
			}
			if !isLive && err == nil {
				return vfFail("op %d: %s Remove(%d) of an unknown / removed id succeeded", i, c.Kind, op.ID)
			}
			if isLive {
				delete(live, op.ID)
				resident[op.ID] = true
			}
		case "flush":
			// (5) exhaustive kinds: flushing never changes a search result
			type pre struct {
				op   vfSOp
				hits []vfHit
			}
			var before []pre
			if c.Kind != "hnsw" && len(resident) > 0 {
				for _, r := range recent {
					if !u.exhaustive(r.NP) {
						continue
					}
					ok := true
					for _, nd := range r.Nodes {
						if _, l := live[nd]; !l {
							ok = false
						}
					}
					if !ok {
						continue
					}
					h, err := u.search(r.Qs, r.Nodes, &r, r.K)
					if err == nil {
						before = append(before, pre{r, h})
					}
				}
			}
			if err := u.idx.Flush(); err != nil {
				return vfFail("op %d: Flush: %v", i, err)
			}
			resident = map[uint32]bool{}
			for _, b := range before {
				after, err := u.search(b.op.Qs, b.op.Nodes, &b.op, b.op.K)
				if err != nil {
					return vfFail("op %d: a search that worked before Flush fails after it: %v", i, err)
				}
				// equal scores may be ordered differently; compare as id->score maps + rank-wise scores,
				// except that a tie at the k-th position may legitimately pick another id
				if ok, why := vfHitsEqualAsMaps(b.hits, after); !ok {
					return vfFail("op %d: %s: Flush changed the result of a search (k=%d, %d queries, nodes %v): %s", i, c.Kind, b.op.K, len(b.op.Qs), b.op.Nodes, why)
				}
				ctx.Class("flush_invariance_checked")
			}
		case "search":
			if v := checkSearch(i, &op); v != nil {
				return v
			}
			recent = append(recent, op)
			if len(recent) > 3 {
				recent = recent[1:]
			}
		}
	}
	_ = sort.Ints
	return nil
}

func TestVerif_C02(t *testing.T) { vfCheck(t, "C02", vfC02Gen, vfC02Run) }
