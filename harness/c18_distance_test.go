package comet

// C18 — distance functions obey the metric laws (DESIGN §4 C18).
// Oracle: algebraic laws + float64 reference, tolerances scaled to float32 accumulation.

import (
	"errors"
	"math"
	"testing"

	"pgregory.net/rapid"
)

type vfC18Case struct {
	Dim   int       `json:"dim"`
	Rel   string    `json:"rel"` // how B was derived from A
	A     []float32 `json:"a"`
	B     []float32 `json:"b"`
	C     []float32 `json:"c"`
	Scale float32   `json:"scale"`
	// number of queries of the batch evaluation (the three vectors, cycled); 0 = the default four
	BatchN int `json:"batch_n,omitempty"`
}

func vfGenComponent(rt *rapid.T, label string, flavour int) float32 {
	switch flavour {
	case 0: // small integers (exact arithmetic)
		return float32(rapid.IntRange(-4, 4).Draw(rt, label))
	case 1: // unit-ish magnitude
		x := rapid.Float64Range(-2, 2).Draw(rt, label)
		if math.Abs(x) < 1e-6 { // the property's domain is |x| in 1e-6..1e6 (or 0): no float32 subnormals
			return 0
		}
		return float32(x)
	default: // mixed magnitudes 1e-6 .. 1e6
		if rapid.IntRange(0, 9).Draw(rt, label+"z") == 0 {
			return 0
		}
		m := rapid.Float64Range(1, 9.999).Draw(rt, label+"m")
		e := rapid.IntRange(-6, 5).Draw(rt, label+"e")
		s := 1.0
		if rapid.Bool().Draw(rt, label+"s") {
			s = -1
		}
		return float32(s * m * math.Pow(10, float64(e)))
	}
}

func vfGenNonZeroVector(rt *rapid.T, label string, dim int) []float32 {
	flavour := rapid.IntRange(0, 2).Draw(rt, label+"_flavour")
	v := make([]float32, dim)
	nz := false
	for i := range v {
		v[i] = vfGenComponent(rt, label, flavour)
		if v[i] != 0 {
			nz = true
		}
	}
	if !nz {
		v[rapid.IntRange(0, dim-1).Draw(rt, label+"_nzpos")] = float32(rapid.SampledFrom([]float64{1, -1, 3, 1e-6, 1e6, -2.5e-3}).Draw(rt, label+"_nzval"))
	}
	return v
}

func vfGenDimWeighted(rt *rapid.T, max int) int {
	switch rapid.IntRange(0, 9).Draw(rt, "dimclass") {
	case 0, 1, 2, 3:
		return rapid.IntRange(1, 4).Draw(rt, "dim")
	case 4, 5, 6:
		return rapid.IntRange(5, 16).Draw(rt, "dim")
	case 7, 8:
		return rapid.IntRange(17, 64).Draw(rt, "dim")
	default:
		return rapid.IntRange(65, max).Draw(rt, "dim")
	}
}

func vfC18Gen(rt *rapid.T) vfC18Case {
	c := vfC18Case{}
	c.Dim = vfGenDimWeighted(rt, 512)
	c.A = vfGenNonZeroVector(rt, "a", c.Dim)
	c.C = vfGenNonZeroVector(rt, "c", c.Dim)
	c.Scale = float32(rapid.Float64Range(0.001, 1000).Draw(rt, "scale"))
	switch bc := rapid.IntRange(0, 19).Draw(rt, "batch_class"); {
	case bc < 4:
		c.BatchN = rapid.IntRange(1, 40).Draw(rt, "batch_n")
	case bc == 4 && c.Dim >= 16:
		// a large batch (implementations may split or parallelise those), size of any residue mod 8
		c.BatchN = 70000/c.Dim + rapid.IntRange(0, 9).Draw(rt, "batch_extra")
	case bc == 5:
		c.BatchN = rapid.IntRange(41, 300).Draw(rt, "batch_n_medium")
	}
	rels := []string{"independent", "equal", "opposite", "orthogonal", "nearly_parallel", "scaled"}
	c.Rel = rapid.SampledFrom(rels).Draw(rt, "rel")
	switch c.Rel {
	case "independent":
		c.B = vfGenNonZeroVector(rt, "b", c.Dim)
	case "equal":
		c.B = vfCloneF32(c.A)
	case "opposite":
		c.B = make([]float32, c.Dim)
		for i := range c.A {
			c.B[i] = -c.A[i]
		}
	case "orthogonal":
		if c.Dim < 2 {
			c.B = vfGenNonZeroVector(rt, "b", c.Dim)
			c.Rel = "independent"
			break
		}
		// rotate the (i,j) plane by 90 degrees where a_i or a_j is non-zero
		c.B = make([]float32, c.Dim)
		i := 0
		for k, x := range c.A {
			if x != 0 {
				i = k
				break
			}
		}
		j := (i + 1) % c.Dim
		c.B[i] = -c.A[j]
		c.B[j] = c.A[i]
	case "nearly_parallel":
		c.B = vfCloneF32(c.A)
		var n float64
		for _, x := range c.A {
			n += float64(x) * float64(x)
		}
		n = math.Sqrt(n)
		k := rapid.IntRange(0, c.Dim-1).Draw(rt, "perturb_at")
		c.B[k] += float32(1e-4 * n)
	case "scaled":
		c.B = make([]float32, c.Dim)
		for i := range c.A {
			c.B[i] = c.A[i] * c.Scale
		}
	}
	allZero := true
	for _, x := range c.B {
		if x != 0 {
			allZero = false
		}
	}
	if allZero {
		c.B[0] = 1
	}
	return c
}

func vfBitsEqual(a, b []float32) bool {
	if len(a) != len(b) {
		return false
	}
	for i := range a {
		if math.Float32bits(a[i]) != math.Float32bits(b[i]) {
			return false
		}
	}
	return true
}

func vfRefL2Sq(a, b []float32) float64 {
	var s float64
	for i := range a {
		d := float64(a[i]) - float64(b[i])
		s += d * d
	}
	return s
}

func vfRefNorm(a []float32) float64 {
	var s float64
	for _, x := range a {
		s += float64(x) * float64(x)
	}
	return math.Sqrt(s)
}

func vfRefCosDist(a, b []float32) float64 {
	var dot float64
	for i := range a {
		dot += float64(a[i]) * float64(b[i])
	}
	return 1 - dot/(vfRefNorm(a)*vfRefNorm(b))
}

const vfEps32 = 1.0 / (1 << 24)

func vfC18Run(c vfC18Case, ctx *vfCtx) *vfViolation {
	n := float64(c.Dim)
	rtolSq := (n + 4) * 2 * vfEps32
	rtolL2 := (n/2 + 4) * 2 * vfEps32
	atolCos := (4*n + 20) * vfEps32

	distinct := false
	for i := 1; i < c.Dim; i++ {
		if c.A[i] != c.A[0] {
			distinct = true
		}
	}
	if c.Dim >= 2 && distinct {
		ctx.NonTrivial()
	}
	ctx.Class("rel=" + c.Rel)
	switch {
	case c.Dim <= 4:
		ctx.Class("dim<=4")
	case c.Dim <= 64:
		ctx.Class("dim<=64")
	default:
		ctx.Class("dim>64")
	}

	a0, b0, c0 := vfCloneF32(c.A), vfCloneF32(c.B), vfCloneF32(c.C)

	for _, kind := range []DistanceKind{Euclidean, L2Squared, Cosine} {
		d, err := NewDistance(kind)
		if err != nil {
			return vfFail("NewDistance(%q) failed: %v", kind, err)
		}
		// Preprocess must not modify its argument.
		pa, err := d.Preprocess(c.A)
		if err != nil {
			return vfFail("%s: Preprocess(a) failed on a non-zero vector: %v", kind, err)
		}
		pb, err := d.Preprocess(c.B)
		if err != nil {
			return vfFail("%s: Preprocess(b) failed on a non-zero vector: %v", kind, err)
		}
		pc, err := d.Preprocess(c.C)
		if err != nil {
			return vfFail("%s: Preprocess(c) failed on a non-zero vector: %v", kind, err)
		}
		if !vfBitsEqual(c.A, a0) || !vfBitsEqual(c.B, b0) || !vfBitsEqual(c.C, c0) {
			return vfFail("%s: Preprocess modified its argument", kind)
		}
		if len(pa) != c.Dim {
			return vfFail("%s: Preprocess changed the length: %d", kind, len(pa))
		}
		// PreprocessInPlace agrees with Preprocess bit for bit.
		ia := vfCloneF32(c.A)
		if err := d.PreprocessInPlace(ia); err != nil {
			return vfFail("%s: PreprocessInPlace failed on a non-zero vector: %v", kind, err)
		}
		for i := range ia {
			if math.Abs(float64(ia[i])-float64(pa[i])) > (n/2+6)*4*vfEps32*math.Abs(float64(pa[i])) {
				return vfFail("%s: PreprocessInPlace and Preprocess disagree at %d: %v vs %v", kind, i, ia[i], pa[i])
			}
		}
		if kind == Cosine {
			for _, p := range [][]float32{pa, pb, pc} {
				if nn := vfRefNorm(p); math.Abs(nn-1) > (n/2+4)*2*vfEps32 {
					return vfFail("cosine: preprocessed vector has norm %v (dim %d)", nn, c.Dim)
				}
			}
		} else if !vfBitsEqual(pa, c.A) {
			return vfFail("%s: preprocessing changed the values of a vector", kind)
		}

		// the same buffer preprocessed again after an in-place edit: the result follows the CONTENT (sign
		// flips keep the norm bit-identical), and writing into an earlier result does not disturb a later one
		if kind == Cosine {
			buf := vfCloneF32(c.A)
			p1, err := d.Preprocess(buf)
			if err != nil {
				return vfFail("cosine: Preprocess: %v", err)
			}
			keep := vfCloneF32(p1)
			for i := range buf {
				buf[i] = -buf[i]
			}
			p2, err := d.Preprocess(buf)
			if err != nil {
				return vfFail("cosine: Preprocess of the negated buffer: %v", err)
			}
			for i := range p2 {
				if p2[i] != -keep[i] {
					return vfFail("cosine: Preprocess of a buffer that was negated in place returns %v at %d, want %v (the result of the earlier call on the same buffer was %v)", p2[i], i, -keep[i], keep[i])
				}
			}
			p2[0] += 1
			p3, err := d.Preprocess(buf)
			if err != nil || len(p3) != len(keep) {
				return vfFail("cosine: Preprocess: %v", err)
			}
			for i := range p3 {
				if p3[i] != -keep[i] {
					return vfFail("cosine: after the caller wrote into an earlier result, Preprocess of the same buffer returns %v at %d, want %v", p3[i], i, -keep[i])
				}
			}
		}
		dab, dba := d.Calculate(pa, pb), d.Calculate(pb, pa)
		dac, dbc := d.Calculate(pa, pc), d.Calculate(pb, pc)
		daa := d.Calculate(pa, pa)
		for _, x := range []float32{dab, dba, dac, dbc, daa} {
			if !(x >= 0) || math.IsInf(float64(x), 0) {
				return vfFail("%s: distance %v is negative / not finite", kind, x)
			}
		}
		if math.Float32bits(dab) != math.Float32bits(dba) {
			return vfFail("%s: not symmetric: d(a,b)=%v d(b,a)=%v", kind, dab, dba)
		}
		if !vfBitsEqual(pa, func() []float32 { p, _ := d.Preprocess(c.A); return p }()) {
			return vfFail("%s: Preprocess is not deterministic", kind)
		}
		switch kind {
		case Euclidean:
			if daa != 0 {
				return vfFail("l2: d(a,a)=%v", daa)
			}
			want := math.Sqrt(vfRefL2Sq(c.A, c.B))
			if math.Abs(float64(dab)-want) > rtolL2*want+1e-30 {
				return vfFail("l2: d(a,b)=%v, float64 reference %v (dim %d)", dab, want, c.Dim)
			}
			sum := float64(dab) + float64(dbc) + float64(dac)
			if float64(dac) > float64(dab)+float64(dbc)+2*rtolL2*sum+1e-30 {
				return vfFail("l2: triangle inequality: d(a,c)=%v > d(a,b)+d(b,c)=%v+%v", dac, dab, dbc)
			}
			// the other orientation, and a collinear (tight) triple: m is the midpoint of a and b
			if float64(dab) > float64(dac)+float64(dbc)+2*rtolL2*sum+1e-30 {
				return vfFail("l2: triangle inequality: d(a,b)=%v > d(a,c)+d(c,b)=%v+%v", dab, dac, dbc)
			}
			mid := make([]float32, c.Dim)
			for i := range mid {
				mid[i] = c.A[i]/2 + c.B[i]/2
			}
			dam, dmb := float64(d.Calculate(c.A, mid)), float64(d.Calculate(mid, c.B))
			if math.Abs(dam+dmb-float64(dab)) > 4*rtolL2*(dam+dmb+float64(dab))+4*vfEps32*(vfRefNorm(c.A)+vfRefNorm(c.B))+1e-30 {
				return vfFail("l2: d(a,m)+d(m,b)=%v+%v differs from d(a,b)=%v for the midpoint m (dim %d)", dam, dmb, dab, c.Dim)
			}
			// the zero vector is an ordinary operand of the L2 family
			zv := make([]float32, c.Dim)
			if dz := float64(d.Calculate(zv, c.A)); math.Abs(dz-vfRefNorm(c.A)) > rtolL2*vfRefNorm(c.A)+1e-30 {
				return vfFail("l2: d(0,a)=%v, |a|=%v", dz, vfRefNorm(c.A))
			}
			if dz := d.Calculate(zv, zv); dz != 0 {
				return vfFail("l2: d(0,0)=%v", dz)
			}
			sq, _ := NewDistance(L2Squared)
			s := float64(sq.Calculate(c.A, c.B))
			if math.Abs(s-float64(dab)*float64(dab)) > 8*vfEps32*s+1e-30 {
				return vfFail("l2_squared=%v is not the square of l2=%v", s, dab)
			}
		case L2Squared:
			if daa != 0 {
				return vfFail("l2_squared: d(a,a)=%v", daa)
			}
			want := vfRefL2Sq(c.A, c.B)
			if math.Abs(float64(dab)-want) > rtolSq*want+1e-30 {
				return vfFail("l2_squared: d(a,b)=%v, float64 reference %v (dim %d)", dab, want, c.Dim)
			}
		case Cosine:
			if float64(daa) > atolCos {
				return vfFail("cosine: d(a,a)=%v after preprocessing (dim %d)", daa, c.Dim)
			}
			for _, x := range []float32{dab, dac, dbc} {
				if x > 2 {
					return vfFail("cosine: distance %v outside [0,2]", x)
				}
			}
			want := vfRefCosDist(c.A, c.B)
			if math.Abs(float64(dab)-want) > atolCos {
				return vfFail("cosine: d(a,b)=%v, 1-cos(angle)=%v (dim %d, rel %s)", dab, want, c.Dim, c.Rel)
			}
			// invariance under positive scaling of the raw vector
			sa := make([]float32, c.Dim)
			for i := range sa {
				sa[i] = c.A[i] * c.Scale
			}
			psa, err := d.Preprocess(sa)
			if err != nil {
				return vfFail("cosine: Preprocess(scale*a) failed: %v", err)
			}
			ds := d.Calculate(psa, pb)
			if math.Abs(float64(ds)-float64(dab)) > 2*atolCos {
				return vfFail("cosine: not scale invariant: d(a,b)=%v d(%v*a,b)=%v", dab, c.Scale, ds)
			}
			ds2 := d.Calculate(pb, psa)
			if math.Abs(float64(ds2)-float64(dab)) > 2*atolCos {
				return vfFail("cosine: not scale invariant in the 2nd argument: %v vs %v", dab, ds2)
			}
		}

		// batch == element-wise, bit for bit; inputs untouched
		qcopy0 := [][]float32{vfCloneF32(pa), vfCloneF32(pb), vfCloneF32(pc)}
		queries := [][]float32{pa, pb, pc, pa}
		qcopy := [][]float32{vfCloneF32(pa), vfCloneF32(pb), vfCloneF32(pc), vfCloneF32(pa)}
		if c.BatchN > 0 && c.BatchN <= 1<<17 {
			queries, qcopy = queries[:0], qcopy[:0]
			for i := 0; i < c.BatchN; i++ {
				queries = append(queries, [][]float32{pa, pb, pc}[i%3])
				qcopy = append(qcopy, [][]float32{qcopy0[0], qcopy0[1], qcopy0[2]}[i%3])
			}
			ctx.ClassIf(c.BatchN*c.Dim >= 65536, "large_batch")
		}
		target := vfCloneF32(pc)
		batch := d.CalculateBatch(queries, pc)
		if len(batch) != len(queries) {
			return vfFail("%s: CalculateBatch returned %d results for %d queries", kind, len(batch), len(queries))
		}
		for i, q := range queries {
			// equal up to float32 accumulation error: the interface allows a batch implementation that
			// associates the sums differently (precomputed norms, blocked loops)
			one := float64(d.Calculate(q, pc))
			tolB := atolCos
			switch kind {
			case Euclidean:
				tolB = rtolL2*one + 1e-30
			case L2Squared:
				tolB = rtolSq*one + 1e-30
			}
			if math.IsNaN(float64(batch[i])) || math.Abs(one-float64(batch[i])) > 2*tolB {
				return vfFail("%s: CalculateBatch[%d]=%v but Calculate=%v", kind, i, batch[i], one)
			}
			if !vfBitsEqual(q, qcopy[i]) {
				return vfFail("%s: CalculateBatch modified query %d", kind, i)
			}
		}
		if !vfBitsEqual(pc, target) {
			return vfFail("%s: CalculateBatch modified the target", kind)
		}
		if out := d.CalculateBatch(nil, pc); len(out) != 0 {
			return vfFail("%s: CalculateBatch(nil) returned %d results", kind, len(out))
		}

		// zero vector
		zero := make([]float32, c.Dim)
		_, errP := d.Preprocess(zero)
		errI := d.PreprocessInPlace(zero)
		if kind == Cosine {
			if !errors.Is(errP, ErrZeroVector) || !errors.Is(errI, ErrZeroVector) {
				return vfFail("cosine: zero vector not rejected (Preprocess: %v, InPlace: %v)", errP, errI)
			}
		} else if errP != nil || errI != nil {
			return vfFail("%s: zero vector rejected: %v %v", kind, errP, errI)
		}
		for _, z := range zero {
			if z != 0 {
				return vfFail("%s: zero vector modified by preprocessing", kind)
			}
		}
	}
	if !vfBitsEqual(c.A, a0) || !vfBitsEqual(c.B, b0) || !vfBitsEqual(c.C, c0) {
		return vfFail("an input vector was modified")
	}

	// helpers
	nrm := float64(Norm(c.A))
	if want := vfRefNorm(c.A); math.Abs(nrm-want) > (n/2+4)*2*vfEps32*want {
		return vfFail("Norm=%v, reference %v", nrm, want)
	}
	sc := Scale(c.A, c.Scale)
	if len(sc) != c.Dim {
		return vfFail("Scale changed the length")
	}
	for i := range sc {
		if math.Float32bits(sc[i]) != math.Float32bits(c.A[i]*c.Scale) {
			return vfFail("Scale[%d]=%v want %v", i, sc[i], c.A[i]*c.Scale)
		}
	}
	sc[0] += 1
	if !vfBitsEqual(c.A, a0) {
		return vfFail("Scale modified or aliases its input")
	}
	for _, f := range []float32{-c.Scale, 0, -1} {
		sn := Scale(c.A, f)
		for i := range sn {
			if len(sn) != c.Dim || sn[i] != c.A[i]*f {
				return vfFail("Scale(a, %v)[%d]=%v want %v", f, i, sn[i], c.A[i]*f)
			}
		}
	}
	nz := Normalize(c.A)
	if !vfBitsEqual(c.A, a0) {
		return vfFail("Normalize modified its input")
	}
	if nn := vfRefNorm(nz); math.Abs(nn-1) > (n/2+4)*2*vfEps32 {
		return vfFail("Normalize: result has norm %v", nn)
	}
	refN := vfRefNorm(c.A)
	for i := range nz {
		want := float64(c.A[i]) / refN
		if math.Abs(float64(nz[i])-want) > (n/2+6)*2*vfEps32*math.Abs(want) {
			return vfFail("Normalize[%d]=%v want %v", i, nz[i], want)
		}
	}
	ip := vfCloneF32(c.A)
	NormalizeInPlace(ip)
	for i := range ip {
		want := float64(c.A[i]) / refN
		if math.Abs(float64(ip[i])-want) > (n/2+6)*2*vfEps32*math.Abs(want) {
			return vfFail("NormalizeInPlace[%d]=%v want %v", i, ip[i], want)
		}
	}
	nz[0] += 1
	if !vfBitsEqual(c.A, a0) {
		return vfFail("Normalize aliases its input")
	}
	zero := make([]float32, c.Dim)
	if z := Normalize(zero); len(z) != c.Dim || Norm(z) != 0 {
		return vfFail("Normalize(zero) = %v", z)
	}
	NormalizeInPlace(zero)
	if Norm(zero) != 0 {
		return vfFail("NormalizeInPlace changed a zero vector")
	}
	if _, err := NewDistance(DistanceKind("nope")); !errors.Is(err, ErrUnknownDistanceKind) {
		return vfFail("NewDistance(unknown) error = %v", err)
	}
	return nil
}

func TestVerif_C18(t *testing.T) { vfCheck(t, "C18", vfC18Gen, vfC18Run) }
