package comet

// Verification harness core (compiled into package comet through `go test -overlay`;
// see /verif/DESIGN.md 2.2). Everything in the harness is prefixed vf / Vf / TestVerif_
// so that it cannot collide with identifiers of the package or of its own tests.
//
// A check is a pair  gen(*rapid.T) Case  /  run(Case, *vfCtx) *vfViolation.
// Case is plain JSON-serialisable data; run is a pure function of the case and the code
// under test.  vfCheck drives the pair either from rapid (search) or from a saved JSON
// case (replay), keeps the evidence counters, and writes one result file per process
// that the python driver (/verif/check) merges.

import (
	"encoding/json"
	"fmt"
	"hash/fnv"
	"os"
	"runtime"
	"runtime/debug"
	"sort"
	"strconv"
	"strings"
	"sync"
	"sync/atomic"
	"testing"
	"time"

	"pgregory.net/rapid"
)

// vfViolation describes one failure of a property on one case.
type vfViolation struct {
	Msg string `json:"msg"`
	// Attr, when non-empty, names the known-finding attribution predicate that the
	// oracle itself established for this failure (DESIGN 2.6). A violation is
	// suppressed only if an OPEN finding with that attribution was replayed at the
	// start of the run and still fails.
	Attr string `json:"attr,omitempty"`
}

func vfFail(format string, args ...any) *vfViolation {
	return &vfViolation{Msg: fmt.Sprintf(format, args...)}
}

func vfFailAttr(attr string, format string, args ...any) *vfViolation {
	return &vfViolation{Msg: fmt.Sprintf(format, args...), Attr: attr}
}

// vfCtx is handed to run; it collects the classification of the case.
type vfCtx struct {
	nontrivial bool
	classes    map[string]int
	notes      []string
	// active attributions (open findings that still reproduce)
	activeAttr map[string]bool
	excluded   int
	// extra counters a check wants to surface in its evidence (summed over cases)
	counters map[string]int64
	stats    map[string][2]float64 // min / max of measured quantities
	tier     string
	replay   bool
}

func (c *vfCtx) NonTrivial()       { c.nontrivial = true }
func (c *vfCtx) Class(name string) { c.classes[name]++ }
func (c *vfCtx) Count(name string, n int64) {
	c.counters[name] += n
}

// Stat records a measured quantity; the evidence reports its minimum and maximum over the run.
func (c *vfCtx) Stat(name string, v float64) {
	if cur, ok := c.stats[name]; ok {
		if v < cur[0] {
			cur[0] = v
		}
		if v > cur[1] {
			cur[1] = v
		}
		c.stats[name] = cur
	} else {
		c.stats[name] = [2]float64{v, v}
	}
}

// HistoryLen files the length of a generated history / list into a bucket of the class histogram,
// so that the evidence shows what the generator really produced.
func (c *vfCtx) HistoryLen(what string, n int) {
	b := "40+"
	switch {
	case n < 4:
		b = "0-3"
	case n < 8:
		b = "4-7"
	case n < 20:
		b = "8-19"
	case n < 40:
		b = "20-39"
	}
	c.classes[what+"_length="+b]++
	c.Stat(what+"_length", float64(n))
}

// vfListOf draws a list whose LENGTH is drawn explicitly. rapid's SliceOfN sizes lists geometrically
// with mean min+min(max(min,5),(max-min)/2) whatever max is, so "1..60 operations" would mean six
// operations on average and essentially never forty. Here 40 % of the lists are short (lo..lo+7),
// 40 % come from the lower half of the range and 20 % from the upper half; the length and the
// elements still shrink (length towards lo).
func vfListOf[E any](rt *rapid.T, label string, elem *rapid.Generator[E], lo, hi int) []E {
	a, b := lo, hi
	switch cl := rapid.IntRange(0, 9).Draw(rt, label+"_length_class"); {
	case cl < 4:
		b = lo + 7
	case cl < 8:
		b = (lo + hi) / 2
	default:
		a = (lo + hi) / 2
	}
	if b > hi {
		b = hi
	}
	if a > b {
		a = b
	}
	n := rapid.IntRange(a, b).Draw(rt, label+"_length")
	return rapid.SliceOfN(elem, n, n).Draw(rt, label)
}

func (c *vfCtx) ClassIf(cond bool, name string) {
	if cond {
		c.classes[name]++
	}
}
func (c *vfCtx) Notef(format string, args ...any) {
	if len(c.notes) < 8 {
		c.notes = append(c.notes, fmt.Sprintf(format, args...))
	}
}

// AttrActive reports whether violations with this attribution are currently covered by an
// open, still reproducing known finding. Oracles use it to keep searching past the
// attributed event (and count it) instead of returning it.
func (c *vfCtx) AttrActive(attr string) bool { return c.activeAttr[attr] }
func (c *vfCtx) Excluded(n int)              { c.excluded += n }
func (c *vfCtx) Thorough() bool              { return c.tier == "thorough" }

type vfKnownFinding struct {
	ID          string          `json:"id"`
	Property    string          `json:"property"`
	Status      string          `json:"status"` // open | fixed
	Commit      string          `json:"commit,omitempty"`
	What        string          `json:"what"`
	Attribution string          `json:"attribution,omitempty"`
	Repro       json.RawMessage `json:"repro,omitempty"`
}

type vfResult struct {
	Property    string                `json:"property"`
	Mode        string                `json:"mode"` // search | replay
	Seed        uint64                `json:"seed"`
	Requested   int                   `json:"requested"`
	Evaluations int                   `json:"evaluations"`
	NonTrivial  []string              `json:"nontrivial_hashes"`
	NTCount     int                   `json:"nontrivial_count"`
	Classes     map[string]int        `json:"classes"`
	Counters    map[string]int64      `json:"counters"`
	Stats       map[string][2]float64 `json:"stats"`
	Samples     []json.RawMessage     `json:"samples"`
	Excluded    int                   `json:"excluded_by_known_finding"`
	Known       []string              `json:"known_finding_lines"`
	Violation   *vfViolation          `json:"violation,omitempty"`
	FailCase    json.RawMessage       `json:"fail_case,omitempty"`
	Notes       []string              `json:"notes,omitempty"`
	WallS       float64               `json:"wall_s"`
	Completed   bool                  `json:"completed"`
}

func vfEnv(key string) string { return os.Getenv(key) }

func vfEnvInt(key string, def int) int {
	if v := os.Getenv(key); v != "" {
		if n, err := strconv.Atoi(v); err == nil {
			return n
		}
	}
	return def
}

func vfHash(b []byte) string {
	h := fnv.New64a()
	h.Write(b)
	return strconv.FormatUint(h.Sum64(), 16)
}

// vfSafe runs f and converts a panic of the code under test into a violation-like error.
var vfDeadlineHit atomic.Bool

func vfSafe(f func() *vfViolation) (v *vfViolation) {
	guarded := func() (v *vfViolation) {
		defer func() {
			if r := recover(); r != nil {
				st := string(debug.Stack())
				if len(st) > 2500 {
					st = st[:2500]
				}
				v = &vfViolation{Msg: fmt.Sprintf("panic: %v\n%s", r, st)}
			}
		}()
		return f()
	}
	// $VERIF_CASE_DEADLINE (seconds, set by the driver for the checks that drive the store / library
	// goroutines): a case that does not come back at all - a search, Flush or Close that blocks for
	// good - is a violation of every one of those properties, not a test time-out. The deadline is two
	// orders of magnitude above what a case takes.
	limit := vfEnvInt("VERIF_CASE_DEADLINE", 0)
	if limit <= 0 {
		return guarded()
	}
	if vfDeadlineHit.Load() {
		// the hang is established; shrinking replays it many times, so those runs get a tenth of the time
		if limit = limit / 10; limit < 20 {
			limit = 20
		}
	}
	done := make(chan *vfViolation, 1)
	go func() { done <- guarded() }()
	select {
	case v := <-done:
		return v
	case <-time.After(time.Duration(limit) * time.Second):
		vfDeadlineHit.Store(true)
		buf := make([]byte, 1<<15)
		buf = buf[:runtime.Stack(buf, true)]
		return &vfViolation{Msg: fmt.Sprintf("the case did not finish within %d s (a call into the library never returned?)\n%s", limit, buf)}
	}
}

// vfLoadFindings returns the findings of one property from $VERIF_KF.
func vfLoadFindings(prop string) []vfKnownFinding {
	path := os.Getenv("VERIF_KF")
	if path == "" {
		return nil
	}
	data, err := os.ReadFile(path)
	if err != nil {
		return nil
	}
	var file struct {
		Findings []vfKnownFinding `json:"findings"`
	}
	if err := json.Unmarshal(data, &file); err != nil {
		panic("known_findings.json does not parse: " + err.Error())
	}
	var out []vfKnownFinding
	for _, f := range file.Findings {
		if f.Property == prop {
			out = append(out, f)
		}
	}
	return out
}

// vfCheck is the single entry point used by every TestVerif_Cxx.
func vfCheck[C any](t *testing.T, prop string, gen func(*rapid.T) C, run func(C, *vfCtx) *vfViolation) {
	start := time.Now()
	res := &vfResult{Property: prop, Classes: map[string]int{}, Counters: map[string]int64{}, Stats: map[string][2]float64{}}
	res.Mode = "search"
	tier := os.Getenv("VERIF_TIER")
	if tier == "" {
		tier = "quick"
	}
	out := os.Getenv("VERIF_OUT")
	nt := map[string]struct{}{}
	var mu sync.Mutex
	write := func() {
		mu.Lock()
		defer mu.Unlock()
		res.WallS = time.Since(start).Seconds()
		res.NonTrivial = res.NonTrivial[:0]
		for h := range nt {
			res.NonTrivial = append(res.NonTrivial, h)
		}
		sort.Strings(res.NonTrivial)
		res.NTCount = len(nt)
		if out != "" {
			b, _ := json.Marshal(res)
			tmp := out + ".tmp"
			if err := os.WriteFile(tmp, b, 0o644); err == nil {
				os.Rename(tmp, out)
			}
		}
	}
	defer write()

	// distinct non-trivial cases are counted through a set of hashes; to bound memory the set stops
	// growing at ntCap per process (further non-trivial cases are tallied separately, so the reported
	// distinct count is a lower bound)
	ntCap := vfEnvInt("VERIF_NT_CAP", 250000)
	active := map[string]bool{}
	newCtx := func() *vfCtx {
		return &vfCtx{classes: map[string]int{}, counters: map[string]int64{}, stats: map[string][2]float64{}, activeAttr: active, tier: tier}
	}

	// --- open known findings: replay each, switch on its exclusion if it still fails ---
	for _, f := range vfLoadFindings(prop) {
		if f.Status != "open" {
			continue
		}
		still := true
		if len(f.Repro) > 0 {
			var c C
			if err := json.Unmarshal(f.Repro, &c); err != nil {
				panic("known finding " + f.ID + ": repro does not decode: " + err.Error())
			}
			ctx := newCtx()
			ctx.replay = true
			still = false
			for i := 0; i < 5 && !still; i++ { // a few tries: some targets are internally randomised
				if v := vfSafe(func() *vfViolation { return run(c, ctx) }); v != nil {
					still = true
				}
			}
		}
		if still {
			line := fmt.Sprintf("KNOWN-FINDING: property=%s %s: %s", prop, f.ID, f.What)
			res.Known = append(res.Known, line)
			fmt.Println(line)
			if f.Attribution != "" {
				active[f.Attribution] = true
			}
		}
	}

	// --- replay mode: run one saved case, no library involved -------------------------
	if rp := os.Getenv("VERIF_REPLAY"); rp != "" {
		res.Mode = "replay"
		data, err := os.ReadFile(rp)
		if err != nil {
			t.Fatalf("replay file: %v", err)
		}
		var wrapper struct {
			Property string          `json:"property"`
			Case     json.RawMessage `json:"case"`
		}
		if err := json.Unmarshal(data, &wrapper); err != nil || len(wrapper.Case) == 0 {
			wrapper.Case = data
		}
		var c C
		if err := json.Unmarshal(wrapper.Case, &c); err != nil {
			t.Fatalf("replay case does not decode: %v", err)
		}
		ctx := newCtx()
		ctx.replay = true
		reps := vfEnvInt("VERIF_REPLAY_REPS", 1)
		for i := 0; i < reps; i++ {
			v := vfSafe(func() *vfViolation { return run(c, ctx) })
			res.Evaluations++
			if v != nil && v.Attr != "" && active[v.Attr] {
				res.Excluded++
				v = nil
			}
			if v != nil {
				res.Violation = v
				res.FailCase = wrapper.Case
				fmt.Printf("REPLAY-FAIL property=%s %s\n", prop, strings.SplitN(v.Msg, "\n", 2)[0])
				break
			}
		}
		res.Completed = true
		if res.Violation != nil {
			t.Fail()
		}
		return
	}

	// --- search -------------------------------------------------------------------
	failed := false
	journal := os.Getenv("VERIF_JOURNAL")
	rapid.Check(t, func(rt *rapid.T) {
		c := gen(rt)
		ctx := newCtx()
		cj, _ := json.Marshal(c)
		if journal != "" {
			// the case about to run: if the process dies inside it (a panic on a library goroutine
			// cannot be recovered here) the driver replays this file in a fresh process
			os.WriteFile(journal, cj, 0o644)
		}
		v := vfSafe(func() *vfViolation { return run(c, ctx) })
		mu.Lock()
		if !failed {
			res.Evaluations++
			for k, n := range ctx.classes {
				res.Classes[k] += n
			}
			for k, n := range ctx.counters {
				res.Counters[k] += n
			}
			for k, mm := range ctx.stats {
				if cur, ok := res.Stats[k]; ok {
					if mm[0] < cur[0] {
						cur[0] = mm[0]
					}
					if mm[1] > cur[1] {
						cur[1] = mm[1]
					}
					res.Stats[k] = cur
				} else {
					res.Stats[k] = mm
				}
			}
			res.Excluded += ctx.excluded
			if ctx.nontrivial && len(nt) >= ntCap {
				res.Counters["nontrivial_cases_beyond_hash_cap(not counted as distinct)"]++
			} else if ctx.nontrivial {
				h := vfHash(cj)
				if _, seen := nt[h]; !seen {
					nt[h] = struct{}{}
					if len(res.Samples) < 3 && len(cj) < 6000 {
						res.Samples = append(res.Samples, json.RawMessage(cj))
					}
				}
			}
			if len(res.Notes) < 8 {
				res.Notes = append(res.Notes, ctx.notes...)
			}
		}
		mu.Unlock()
		if v != nil && v.Attr != "" && active[v.Attr] {
			mu.Lock()
			if !failed {
				res.Excluded++
			}
			mu.Unlock()
			v = nil
		}
		if v != nil {
			mu.Lock()
			failed = true
			res.Violation = v
			res.FailCase = json.RawMessage(cj)
			mu.Unlock()
			write()
			// a constant message: rapid aborts shrinking when two runs of the same input fail with
			// different texts, and violation texts may legitimately differ (map order in the rendering)
			rt.Fatalf("property %s violated (the violation text is in the result file)", prop)
		}
	})
	res.Completed = true
	if len(res.Samples) == 0 {
		// no non-trivial sample small enough: keep a truncated rendering of nothing
		// rather than inventing one; the driver reports that.
	}
}

// ---------------------------------------------------------------------------------
// small generic helpers shared by the checks

func vfCloneF32(v []float32) []float32 {
	if v == nil {
		return nil
	}
	out := make([]float32, len(v))
	copy(out, v)
	return out
}

func vfSortedU32(m map[uint32]struct{}) []uint32 {
	out := make([]uint32, 0, len(m))
	for k := range m {
		out = append(out, k)
	}
	sort.Slice(out, func(i, j int) bool { return out[i] < out[j] })
	return out
}
