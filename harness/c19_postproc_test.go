package comet

// C19 — result post-processing (aggregate, limit, autocut, fuse, merge) obeys its laws.
// Oracle: reference fold id -> [scores] + order / prefix / permutation / non-mutation predicates.

import (
	"encoding/json"
	"fmt"
	"math"
	"sort"
	"strconv"
	"testing"

	"pgregory.net/rapid"
)

// vfF is a float64 that survives JSON even when it is NaN or infinite.
type vfF float64

func (f vfF) MarshalJSON() ([]byte, error) {
	x := float64(f)
	switch {
	case math.IsNaN(x):
		return []byte(`"NaN"`), nil
	case math.IsInf(x, 1):
		return []byte(`"+Inf"`), nil
	case math.IsInf(x, -1):
		return []byte(`"-Inf"`), nil
	}
	return json.Marshal(x)
}

func (f *vfF) UnmarshalJSON(b []byte) error {
	if len(b) > 0 && b[0] == '"' {
		var s string
		if err := json.Unmarshal(b, &s); err != nil {
			return err
		}
		x, err := strconv.ParseFloat(s, 64)
		if err != nil {
			return err
		}
		*f = vfF(x)
		return nil
	}
	var x float64
	if err := json.Unmarshal(b, &x); err != nil {
		return err
	}
	*f = vfF(x)
	return nil
}

type vfIDScore struct {
	ID uint32 `json:"id"`
	S  vfF    `json:"s"`
}

type vfC19Case struct {
	List    []vfIDScore `json:"list"`
	Perm    []int       `json:"perm"` // a permutation of List's indices
	K       int         `json:"k"`
	Cutoff  int         `json:"cutoff"`
	VecMap  []vfIDScore `json:"vec_map"`  // distinct ids
	TextMap []vfIDScore `json:"text_map"` // distinct ids
	WV      float64     `json:"wv"`
	WT      float64     `json:"wt"`
	RRFK    float64     `json:"rrf_k"`
}

func vfGenScore(rt *rapid.T, label string, special bool) float64 {
	c := rapid.IntRange(0, 19).Draw(rt, label+"_class")
	switch {
	case c < 8:
		return float64(float32(rapid.Float64Range(-100, 100).Draw(rt, label)))
	case c < 14:
		return float64(rapid.IntRange(-3, 3).Draw(rt, label+"_int")) // exact ties
	case c < 16:
		return float64(float32(rapid.Float64Range(0, 1).Draw(rt, label+"_unit")))
	case c < 17:
		return float64(float32(rapid.Float64Range(-1e6, 1e6).Draw(rt, label+"_big")))
	default:
		if !special {
			return 0
		}
		return rapid.SampledFrom([]float64{math.Inf(1), math.Inf(-1), math.NaN(), 0}).Draw(rt, label+"_special")
	}
}

// vfGenScore64: fusion takes float64 scores; a quarter of the maps use values that only float64
// tells apart (neighbours 1e-12 apart, magnitudes beyond float32).
func vfGenScore64(rt *rapid.T, label string) float64 {
	switch rapid.IntRange(0, 3).Draw(rt, label+"_64class") {
	case 0:
		return 0.25 + 1e-12*float64(rapid.IntRange(-20, 20).Draw(rt, label+"_near"))
	case 1:
		return float64(rapid.IntRange(-20, 20).Draw(rt, label+"_huge")) * 1e300
	case 2:
		return float64(rapid.IntRange(-20, 20).Draw(rt, label+"_tiny")) * 1e-300
	default:
		return 1e6 + 1e-7*float64(rapid.IntRange(-20, 20).Draw(rt, label+"_near_big"))
	}
}

func vfGenScoreMap(rt *rapid.T, label string, ids []uint32, special bool) []vfIDScore {
	var out []vfIDScore
	wide := rapid.IntRange(0, 3).Draw(rt, label+"_float64_scores") == 0
	for _, id := range ids {
		if rapid.Bool().Draw(rt, label+"_has") {
			if wide {
				out = append(out, vfIDScore{ID: id, S: vfF(vfGenScore64(rt, label))})
				continue
			}
			out = append(out, vfIDScore{ID: id, S: vfF(vfGenScore(rt, label, special))})
		}
	}
	return out
}

func vfC19Gen(rt *rapid.T) vfC19Case {
	c := vfC19Case{}
	special := rapid.IntRange(0, 3).Draw(rt, "allow_special") == 0
	nIDs := rapid.IntRange(1, 40).Draw(rt, "n_ids")
	elem := rapid.Custom(func(rt *rapid.T) vfIDScore {
		id := uint32(rapid.IntRange(1, nIDs).Draw(rt, "id"))
		if rapid.IntRange(0, 19).Draw(rt, "bigid") == 0 {
			id = math.MaxUint32 - id
		}
		return vfIDScore{ID: id, S: vfF(vfGenScore(rt, "s", special))}
	})
	maxLen := 40
	if rapid.IntRange(0, 9).Draw(rt, "long") == 0 {
		maxLen = 300
	}
	c.List = vfListOf(rt, "list", elem, 0, maxLen)
	c.Perm = rapid.Permutation(vfIota(len(c.List))).Draw(rt, "perm")
	c.K = rapid.IntRange(-3, len(c.List)+3).Draw(rt, "k")
	c.Cutoff = rapid.IntRange(-3, 6).Draw(rt, "cutoff")
	// two score maps over a shared id pool: disjoint / nested / equal / arbitrary
	pool := make([]uint32, rapid.IntRange(0, 12).Draw(rt, "pool"))
	if rapid.IntRange(0, 7).Draw(rt, "big_pool") == 0 {
		pool = make([]uint32, rapid.IntRange(13, 120).Draw(rt, "pool_big"))
	}
	for i := range pool {
		pool[i] = uint32(i + 1)
		if i%5 == 4 {
			pool[i] = math.MaxUint32 - uint32(i)
		}
	}
	switch rapid.IntRange(0, 4).Draw(rt, "map_shape") {
	case 0: // arbitrary overlap
		c.VecMap = vfGenScoreMap(rt, "vm", pool, special)
		c.TextMap = vfGenScoreMap(rt, "tm", pool, special)
	case 1: // disjoint
		h := len(pool) / 2
		c.VecMap = vfGenScoreMap(rt, "vm", pool[:h], special)
		c.TextMap = vfGenScoreMap(rt, "tm", pool[h:], special)
	case 2: // equal key sets
		c.VecMap = vfGenScoreMap(rt, "vm", pool, special)
		for _, e := range c.VecMap {
			c.TextMap = append(c.TextMap, vfIDScore{ID: e.ID, S: vfF(vfGenScore(rt, "tm", special))})
		}
	case 3: // nested
		c.VecMap = vfGenScoreMap(rt, "vm", pool, special)
		var ids []uint32
		for _, e := range c.VecMap {
			ids = append(ids, e.ID)
		}
		c.TextMap = vfGenScoreMap(rt, "tm", ids, special)
	case 4: // one empty
		c.VecMap = vfGenScoreMap(rt, "vm", pool, special)
	}
	c.WV = rapid.SampledFrom([]float64{0, 0.3, 0.5, 1, 2, 3}).Draw(rt, "wv")
	c.WT = rapid.SampledFrom([]float64{0, 0.7, 0.5, 1, 2.5}).Draw(rt, "wt")
	c.RRFK = rapid.SampledFrom([]float64{60, 1, 0.5, 10, 100}).Draw(rt, "rrfk")
	return c
}

func vfIota(n int) []int {
	out := make([]int, n)
	for i := range out {
		out[i] = i
	}
	return out
}

type vfFold struct {
	scores []float64
	hasNaN bool
}

func vfFoldOf(list []vfIDScore) map[uint32]*vfFold {
	m := map[uint32]*vfFold{}
	for _, e := range list {
		f := m[e.ID]
		if f == nil {
			f = &vfFold{}
			m[e.ID] = f
		}
		f.scores = append(f.scores, float64(float32(e.S)))
		if math.IsNaN(float64(e.S)) {
			f.hasNaN = true
		}
	}
	return m
}

// vfAggWant returns the reference aggregate and its tolerance (float32 accumulation).
func vfAggWant(kind ScoreAggregationKind, f *vfFold) (want, tol float64) {
	var sum, abs float64
	max := math.Inf(-1)
	for _, s := range f.scores {
		sum += s
		abs += math.Abs(s)
		if s > max {
			max = s
		}
	}
	n := float64(len(f.scores))
	switch kind {
	case SumAggregation:
		return sum, (n + 1) * vfEps32 * 2 * abs
	case MeanAggregation:
		return sum / n, (n+2)*vfEps32*2*abs/n + 1e-38
	default:
		return max, 0
	}
}

func vfSameClass(got float64, want float64, tol float64) bool {
	if math.IsNaN(want) {
		return math.IsNaN(got)
	}
	if math.IsInf(want, 0) {
		return got == want
	}
	if math.IsNaN(got) || math.IsInf(got, 0) {
		return false
	}
	return math.Abs(got-want) <= tol
}

// vfCheckAggregated validates one aggregation output (ids, scores, order).
func vfCheckAggregated(name string, kind ScoreAggregationKind, out []vfHit, fold map[uint32]*vfFold, ascending bool) *vfViolation {
	if len(out) != len(fold) {
		return vfFail("%s/%s: %d ids in, %d results out", name, kind, len(fold), len(out))
	}
	seen := map[uint32]bool{}
	anyNaN := false
	for _, h := range out {
		if seen[h.ID] {
			return vfFail("%s/%s: id %d appears twice", name, kind, h.ID)
		}
		seen[h.ID] = true
		f := fold[h.ID]
		if f == nil {
			return vfFail("%s/%s: id %d was not in the input", name, kind, h.ID)
		}
		if math.IsNaN(float64(h.Score)) {
			anyNaN = true
		}
		if f.hasNaN {
			continue // NaN poisons sum/mean and makes max order-dependent: only presence is asserted
		}
		want, tol := vfAggWant(kind, f)
		if !vfSameClass(float64(h.Score), want, tol) {
			return vfFail("%s/%s: id %d: got %v, reference %v over %v (tol %g)", name, kind, h.ID, h.Score, want, f.scores, tol)
		}
	}
	if !anyNaN {
		for i := 1; i < len(out); i++ {
			if ascending && out[i-1].Score > out[i].Score || !ascending && out[i-1].Score < out[i].Score {
				return vfFail("%s/%s: output not ordered best-first at %d: %v, %v", name, kind, i, out[i-1].Score, out[i].Score)
			}
		}
	}
	return nil
}

func vfMapOf(list []vfIDScore) map[uint32]float64 {
	m := make(map[uint32]float64, len(list))
	for _, e := range list {
		m[e.ID] = float64(e.S)
	}
	return m
}

func vfMapsBitEqual(a, b map[uint32]float64) bool {
	if len(a) != len(b) {
		return false
	}
	for k, v := range a {
		w, ok := b[k]
		if !ok || math.Float64bits(v) != math.Float64bits(w) {
			return false
		}
	}
	return true
}

// vfRankIntervals: for every id the range [lo,hi] of 0-based ranks it may legally receive
// (ids with equal scores share an interval). ok=false when a NaN makes ranks undefined.
func vfRankIntervals(m map[uint32]float64, ascending bool) (map[uint32][2]int, bool) {
	type kv struct {
		id uint32
		s  float64
	}
	var l []kv
	for id, s := range m {
		if math.IsNaN(s) {
			return nil, false
		}
		l = append(l, kv{id, s})
	}
	sort.Slice(l, func(i, j int) bool {
		if ascending {
			return l[i].s < l[j].s
		}
		return l[i].s > l[j].s
	})
	out := map[uint32][2]int{}
	for i := 0; i < len(l); {
		j := i
		for j+1 < len(l) && l[j+1].s == l[i].s {
			j++
		}
		for x := i; x <= j; x++ {
			out[l[x].id] = [2]int{i, j}
		}
		i = j + 1
	}
	return out, true
}

func vfC19Run(c vfC19Case, ctx *vfCtx) *vfViolation {
	ctx.HistoryLen("list", len(c.List))
	fold := vfFoldOf(c.List)
	dupl := false
	for _, f := range fold {
		if len(f.scores) > 1 {
			dupl = true
		}
	}
	vm, tm := vfMapOf(c.VecMap), vfMapOf(c.TextMap)
	symdiff := false
	for id := range vm {
		if _, ok := tm[id]; !ok {
			symdiff = true
		}
	}
	for id := range tm {
		if _, ok := vm[id]; !ok {
			symdiff = true
		}
	}
	if len(fold) >= 2 && dupl || symdiff {
		ctx.NonTrivial()
	}
	ctx.ClassIf(dupl, "list_with_duplicate_ids")
	ctx.ClassIf(symdiff, "maps_with_symmetric_difference")
	ctx.ClassIf(len(c.List) == 0, "empty_list")
	special := false
	for _, e := range c.List {
		if math.IsNaN(float64(e.S)) || math.IsInf(float64(e.S), 0) {
			special = true
		}
	}
	ctx.ClassIf(special, "list_with_nan_or_inf")

	permuted := make([]vfIDScore, len(c.List))
	okPerm := len(c.Perm) == len(c.List)
	if okPerm {
		for i, p := range c.Perm {
			if p < 0 || p >= len(c.List) {
				okPerm = false
				break
			}
			permuted[i] = c.List[p]
		}
	}

	// ---- aggregation, both modalities, three kinds ------------------------------
	for _, kind := range []ScoreAggregationKind{SumAggregation, MaxAggregation, MeanAggregation} {
		va, err := NewVectorAggregation(kind)
		if err != nil {
			return vfFail("NewVectorAggregation(%s): %v", kind, err)
		}
		ta, err := NewTextAggregation(kind)
		if err != nil {
			return vfFail("NewTextAggregation(%s): %v", kind, err)
		}
		if va.Kind() != kind || ta.Kind() != kind {
			return vfFail("aggregation Kind() mismatch for %s", kind)
		}
		mkV := func(l []vfIDScore) []VectorResult {
			out := make([]VectorResult, len(l))
			for i, e := range l {
				out[i] = VectorResult{Node: *NewVectorNodeWithID(e.ID, nil), Score: float32(e.S)}
			}
			return out
		}
		mkT := func(l []vfIDScore) []TextResult {
			out := make([]TextResult, len(l))
			for i, e := range l {
				out[i] = TextResult{Id: e.ID, Score: float32(e.S)}
			}
			return out
		}
		vin := mkV(c.List)
		vout := vfHitsOf(va.Aggregate(vin))
		if v := vfCheckAggregated("vector", kind, vout, fold, true); v != nil {
			return v
		}
		for i, e := range c.List { // input untouched
			if vin[i].GetId() != e.ID || math.Float32bits(vin[i].Score) != math.Float32bits(float32(e.S)) {
				return vfFail("vector/%s: Aggregate modified its input at %d", kind, i)
			}
		}
		tin := mkT(c.List)
		tres := ta.Aggregate(tin)
		tout := make([]vfHit, len(tres))
		for i, r := range tres {
			tout[i] = vfHit{ID: r.GetId(), Score: r.GetScore()}
		}
		if v := vfCheckAggregated("text", kind, tout, fold, false); v != nil {
			return v
		}
		for i, e := range c.List {
			if tin[i].Id != e.ID || math.Float32bits(tin[i].Score) != math.Float32bits(float32(e.S)) {
				return vfFail("text/%s: Aggregate modified its input at %d", kind, i)
			}
		}
		if okPerm {
			// independence of input order: same id -> score map (up to rounding)
			pv := vfHitsOf(va.Aggregate(mkV(permuted)))
			if v := vfCheckAggregated("vector(permuted)", kind, pv, fold, true); v != nil {
				return v
			}
			a, b := map[uint32]float32{}, map[uint32]float32{}
			for _, h := range vout {
				a[h.ID] = h.Score
			}
			for _, h := range pv {
				b[h.ID] = h.Score
			}
			for id, x := range a {
				f := fold[id]
				if f.hasNaN {
					continue
				}
				_, tol := vfAggWant(kind, f)
				if !vfSameClass(float64(b[id]), float64(x), 2*tol) {
					return vfFail("vector/%s: id %d aggregates to %v, but to %v after permuting the input", kind, id, x, b[id])
				}
			}
			pt := ta.Aggregate(mkT(permuted))
			ph := make([]vfHit, len(pt))
			for i, r := range pt {
				ph[i] = vfHit{ID: r.Id, Score: r.Score}
			}
			if v := vfCheckAggregated("text(permuted)", kind, ph, fold, false); v != nil {
				return v
			}
		}

		// ---- LimitResults: first min(k', len) elements, same order ----------------
		full := va.Aggregate(mkV(c.List))
		lim := LimitResults(full, c.K)
		wantN := vfExpectedCount(c.K, len(full))
		if len(lim) != wantN {
			return vfFail("LimitResults(len %d, k=%d) returned %d elements, want %d", len(full), c.K, len(lim), wantN)
		}
		for i := range lim {
			if lim[i].GetId() != full[i].GetId() || math.Float32bits(lim[i].Score) != math.Float32bits(full[i].Score) {
				return vfFail("LimitResults is not a prefix at %d", i)
			}
		}
	}
	if _, err := NewVectorAggregation("nope"); err == nil {
		return vfFail("NewVectorAggregation accepted an unknown kind")
	}
	if _, err := NewTextAggregation("nope"); err == nil {
		return vfFail("NewTextAggregation accepted an unknown kind")
	}
	if DefaultVectorAggregation().Kind() != SumAggregation || DefaultTextAggregation().Kind() != SumAggregation {
		return vfFail("default aggregation is not sum")
	}

	// ---- LimitResults / Autocut on the raw list (any scores, any order) ------------
	raw := make([]TextResult, len(c.List))
	scores := make([]float32, len(c.List))
	for i, e := range c.List {
		raw[i] = TextResult{Id: e.ID, Score: float32(e.S)}
		scores[i] = float32(e.S)
	}
	lim := LimitResults(raw, c.K)
	if len(lim) != vfExpectedCount(c.K, len(raw)) {
		return vfFail("LimitResults(len %d, k=%d) returned %d", len(raw), c.K, len(lim))
	}
	for i := range lim {
		if lim[i].Id != raw[i].Id {
			return vfFail("LimitResults is not a prefix at %d", i)
		}
	}
	cutIdx := Autocut(scores, c.Cutoff)
	if cutIdx < 0 || cutIdx > len(scores) {
		return vfFail("Autocut returned index %d for %d values", cutIdx, len(scores))
	}
	for i, e := range c.List {
		if math.Float32bits(scores[i]) != math.Float32bits(float32(e.S)) {
			return vfFail("Autocut modified its input")
		}
	}
	cut := AutocutResults(raw, c.Cutoff)
	if len(cut) > len(raw) {
		return vfFail("AutocutResults returned more than its input")
	}
	for i := range cut {
		if cut[i].Id != raw[i].Id || math.Float32bits(cut[i].Score) != math.Float32bits(raw[i].Score) {
			return vfFail("AutocutResults is not a prefix at %d", i)
		}
	}
	if c.Cutoff != -1 && len(raw) > 0 && len(cut) != cutIdx {
		return vfFail("AutocutResults kept %d, Autocut index is %d", len(cut), cutIdx)
	}
	if all := AutocutResults(raw, -1); len(all) != len(raw) {
		return vfFail("AutocutResults(cutoff=-1) dropped results: %d of %d", len(all), len(raw))
	}
	// the shapes the library itself feeds to autocut: monotone score sequences (with plateaus)
	for _, dir := range []int{1, -1} {
		sorted := make([]float32, len(scores))
		copy(sorted, scores)
		sort.SliceStable(sorted, func(i, j int) bool {
			if dir > 0 {
				return sorted[i] < sorted[j]
			}
			return sorted[i] > sorted[j]
		})
		keep := append([]float32{}, sorted...)
		for _, cutoff := range []int{c.Cutoff, 1, 2} {
			idx := Autocut(sorted, cutoff)
			if idx < 0 || idx > len(sorted) {
				return vfFail("Autocut returned index %d for %d sorted values (cutoff %d)", idx, len(sorted), cutoff)
			}
		}
		for i := range sorted {
			if math.Float32bits(sorted[i]) != math.Float32bits(keep[i]) {
				return vfFail("Autocut modified its (sorted) input")
			}
		}
	}

	// ---- fusion ---------------------------------------------------------------------
	vm0, tm0 := vfMapOf(c.VecMap), vfMapOf(c.TextMap)
	cfg := &FusionConfig{VectorWeight: c.WV, TextWeight: c.WT, K: c.RRFK}
	union := map[uint32]bool{}
	for id := range vm {
		union[id] = true
	}
	for id := range tm {
		union[id] = true
	}
	// "start from the defaults and change a field" must not change anybody else's configuration: a
	// fusion built with a nil config (and the default fusion) keeps the documented defaults 1 / 1 / 60
	if dc := DefaultFusionConfig(); dc != nil {
		dc.VectorWeight, dc.TextWeight, dc.K = 7, 0.125, 1
	}
	if d2 := DefaultFusionConfig(); d2 == nil || d2.VectorWeight != 1 || d2.TextWeight != 1 || d2.K != 60 {
		return vfFail("DefaultFusionConfig() no longer returns the defaults after a caller changed the object it got earlier: %+v", d2)
	}
	for _, kind := range []FusionKind{WeightedSumFusion, ReciprocalRankFusion} {
		fd, err := NewFusion(kind, nil)
		if err != nil || fd == nil {
			return vfFail("NewFusion(%s, nil): %v", kind, err)
		}
		if kind == ReciprocalRankFusion && (vfHasTies64(vm) || vfHasTies64(tm)) {
			continue // ranks inside a tie group are arbitrary: two runs may legitimately differ
		}
		fe, _ := NewFusion(kind, &FusionConfig{VectorWeight: 1, TextWeight: 1, K: 60})
		a, b := fd.Combine(vm, tm), fe.Combine(vm, tm)
		if len(a) != len(b) {
			return vfFail("%s fusion with the default configuration returns %d ids, with explicit 1 / 1 / 60 it returns %d", kind, len(a), len(b))
		}
		for id, x := range b {
			if y, ok := a[id]; !ok || !(x == y || math.IsNaN(x) && math.IsNaN(y)) {
				return vfFail("%s fusion with the default configuration gives id %d the score %v, with explicit 1 / 1 / 60 it gets %v (after a caller modified a config obtained from DefaultFusionConfig)", kind, id, y, x)
			}
		}
	}
	if fd := DefaultFusion(); fd != nil && !(fd.Kind() == ReciprocalRankFusion && (vfHasTies64(vm) || vfHasTies64(tm))) {
		fe, _ := NewFusion(fd.Kind(), &FusionConfig{VectorWeight: 1, TextWeight: 1, K: 60})
		a, b := fd.Combine(vm, tm), fe.Combine(vm, tm)
		for id, x := range b {
			if y, ok := a[id]; !ok || len(a) != len(b) || !(x == y || math.IsNaN(x) && math.IsNaN(y)) {
				return vfFail("DefaultFusion() gives id %d the score %v, the documented defaults give %v", id, y, x)
			}
		}
	}
	for _, kind := range []FusionKind{WeightedSumFusion, ReciprocalRankFusion, MaxFusion, MinFusion} {
		f, err := NewFusion(kind, cfg)
		if err != nil {
			return vfFail("NewFusion(%s): %v", kind, err)
		}
		if f.Kind() != kind {
			return vfFail("fusion Kind() = %s, want %s", f.Kind(), kind)
		}
		out := f.Combine(vm, tm)
		if !vfMapsBitEqual(vm, vm0) || !vfMapsBitEqual(tm, tm0) {
			return vfFail("%s fusion mutated its inputs", kind)
		}
		wantKeys := union
		if kind == MinFusion {
			wantKeys = map[uint32]bool{}
			for id := range vm {
				if _, ok := tm[id]; ok {
					wantKeys[id] = true
				}
			}
		}
		if len(out) != len(wantKeys) {
			return vfFail("%s fusion: %d ids out, want %d", kind, len(out), len(wantKeys))
		}
		var vr, tr map[uint32][2]int
		vok, tok := true, true
		if kind == ReciprocalRankFusion {
			vr, vok = vfRankIntervals(vm, true)
			tr, tok = vfRankIntervals(tm, false)
		}
		for id := range wantKeys {
			got, ok := out[id]
			if !ok {
				return vfFail("%s fusion: id %d missing from the output", kind, id)
			}
			v, hv := vm[id]
			t, ht := tm[id]
			switch kind {
			case WeightedSumFusion:
				var want float64
				if hv {
					want += v * c.WV
				}
				if ht {
					want += t * c.WT
				}
				if hv && ht {
					want = v*c.WV + t*c.WT
				}
				if !vfSameClass(got, want, 1e-9*(math.Abs(v*c.WV)+math.Abs(t*c.WT))+1e-300) {
					return vfFail("weighted_sum: id %d = %v, want %v*%v + %v*%v = %v", id, got, c.WV, v, c.WT, t, want)
				}
			case MaxFusion:
				if math.IsNaN(v) && hv || math.IsNaN(t) && ht {
					continue
				}
				want := v
				if !hv || ht && t > v {
					want = t
				}
				if got != want {
					return vfFail("max fusion: id %d = %v, want %v (vector %v/%v text %v/%v)", id, got, want, v, hv, t, ht)
				}
			case MinFusion:
				if math.IsNaN(v) || math.IsNaN(t) {
					continue
				}
				if want := math.Min(v, t); got != want {
					return vfFail("min fusion: id %d = %v, want min(%v,%v)", id, got, v, t)
				}
			case ReciprocalRankFusion:
				if !vok || !tok {
					continue
				}
				lo, hi := 0.0, 0.0
				if hv {
					lo += 1 / (c.RRFK + float64(vr[id][1]))
					hi += 1 / (c.RRFK + float64(vr[id][0]))
				}
				if ht {
					lo += 1 / (c.RRFK + float64(tr[id][1]))
					hi += 1 / (c.RRFK + float64(tr[id][0]))
				}
				if got < lo-1e-12 || got > hi+1e-12 {
					return vfFail("rrf: id %d = %v, want within [%v,%v] (vector rank %v text rank %v, K=%v)", id, got, lo, hi, vr[id], tr[id], c.RRFK)
				}
			}
		}
		// RRF: distinct ids of one modality get distinct ranks (sum over ids is fixed)
		if kind == ReciprocalRankFusion && vok && tok {
			var got, want float64
			for _, s := range out {
				got += s
			}
			for i := range vm {
				_ = i
			}
			for i := 0; i < len(vm); i++ {
				want += 1 / (c.RRFK + float64(i))
			}
			for i := 0; i < len(tm); i++ {
				want += 1 / (c.RRFK + float64(i))
			}
			if math.Abs(got-want) > 1e-9*(1+want) {
				return vfFail("rrf: total score mass %v, want %v (ranks are not a permutation of 0..n-1)", got, want)
			}
		}
	}
	if f, err := NewFusion(WeightedSumFusion, nil); err != nil || f == nil {
		return vfFail("NewFusion(nil config): %v", err)
	}
	if _, err := NewFusion("nope", nil); err == nil {
		return vfFail("NewFusion accepted an unknown kind")
	}
	if d := DefaultFusion(); d.Kind() != WeightedSumFusion {
		return vfFail("DefaultFusion kind %s", d.Kind())
	}

	// ---- mergeResults: each id once with its highest score -------------------------
	hin := make([]HybridSearchResult, len(c.List))
	for i, e := range c.List {
		hin[i] = HybridSearchResult{ID: e.ID, Score: float64(e.S)}
	}
	merged := mergeResults(hin)
	if len(merged) != len(fold) {
		return vfFail("mergeResults: %d ids in, %d out", len(fold), len(merged))
	}
	seen := map[uint32]bool{}
	for _, r := range merged {
		if seen[r.ID] {
			return vfFail("mergeResults: id %d twice", r.ID)
		}
		seen[r.ID] = true
		f := fold[r.ID]
		if f == nil {
			return vfFail("mergeResults: id %d invented", r.ID)
		}
		if f.hasNaN {
			continue
		}
		want := math.Inf(-1)
		for _, e := range c.List {
			if e.ID == r.ID && float64(e.S) > want {
				want = float64(e.S)
			}
		}
		if r.Score != want {
			return vfFail("mergeResults: id %d score %v, highest input score %v", r.ID, r.Score, want)
		}
	}
	for i, e := range c.List {
		if hin[i].ID != e.ID || math.Float64bits(hin[i].Score) != math.Float64bits(float64(e.S)) {
			return vfFail("mergeResults modified its input")
		}
	}
	hasNaN := false
	for _, r := range merged {
		hasNaN = hasNaN || math.IsNaN(r.Score)
	}
	sortResultsByScore(merged)
	if len(merged) != len(fold) {
		return vfFail("sortResultsByScore changed the length")
	}
	if !hasNaN {
		for i := 1; i < len(merged); i++ {
			if merged[i-1].Score < merged[i].Score {
				return vfFail("sortResultsByScore: not descending at %d", i)
			}
		}
	}
	return nil
}

// vfHasTies64: two ids with the same score, or a NaN (unordered), in a score map
func vfHasTies64(m map[uint32]float64) bool {
	seen := map[float64]bool{}
	for _, x := range m {
		if math.IsNaN(x) || seen[x] {
			return true
		}
		seen[x] = true
	}
	return false
}

func TestVerif_C19(t *testing.T) { vfCheck(t, "C19", vfC19Gen, vfC19Run) }

var _ = fmt.Sprintf
