package comet

// The ONLY harness file that touches unexported identifiers of package comet
// (DESIGN 2.2). If the package is refactored, this is the file to adapt.

// ---- IVF ----

func vfIVFCentroids(idx *IVFIndex) [][]float32 {
	idx.mu.RLock()
	defer idx.mu.RUnlock()
	return vfClone2D(idx.centroids)
}

// vfIVFLists returns, per inverted list, the ids stored there (resident, incl. soft-deleted).
func vfIVFLists(idx *IVFIndex) [][]uint32 {
	idx.mu.RLock()
	defer idx.mu.RUnlock()
	out := make([][]uint32, len(idx.lists))
	for i, l := range idx.lists {
		for _, v := range l {
			out[i] = append(out[i], v.ID())
		}
	}
	return out
}

// vfIVFStored returns the stored (preprocessed) vector of an id, or nil.
func vfIVFStored(idx *IVFIndex, id uint32) []float32 {
	idx.mu.RLock()
	defer idx.mu.RUnlock()
	for _, l := range idx.lists {
		for _, v := range l {
			if v.ID() == id {
				return vfCloneF32(v.Vector())
			}
		}
	}
	return nil
}

func vfIVFDistance(idx *IVFIndex) Distance { return idx.distance }

// ---- PQ ----

type vfPQView struct {
	M, Ksub, Dsub int
	Codebooks     [][]float32          // M x (Ksub*Dsub)
	Codes         map[uint32][]int     // id -> code (resident, incl. soft-deleted)
	Stored        map[uint32][]float32 // id -> stored (preprocessed) vector
}

func vfPQViewOf(idx *PQIndex) vfPQView {
	idx.mu.RLock()
	defer idx.mu.RUnlock()
	v := vfPQView{M: idx.M, Ksub: idx.Ksub, Dsub: idx.dsub, Codebooks: vfClone2D(idx.codebooks), Codes: map[uint32][]int{}, Stored: map[uint32][]float32{}}
	for i, n := range idx.vectorNodes {
		code := make([]int, len(idx.codes[i]))
		for j, c := range idx.codes[i] {
			code[j] = int(c)
		}
		v.Codes[n.ID()] = code
		v.Stored[n.ID()] = vfCloneF32(n.Vector())
	}
	return v
}

// ---- IVFPQ ----

type vfIVFPQView struct {
	vfPQView
	Centroids [][]float32
	Lists     [][]uint32
	ListOf    map[uint32]int
}

func vfIVFPQViewOf(idx *IVFPQIndex) vfIVFPQView {
	idx.mu.RLock()
	defer idx.mu.RUnlock()
	v := vfIVFPQView{}
	v.M, v.Ksub, v.Dsub = idx.M, idx.Ksub, idx.dsub
	v.Codebooks = vfClone2D(idx.codebooks)
	v.Codes, v.Stored, v.ListOf = map[uint32][]int{}, map[uint32][]float32{}, map[uint32]int{}
	v.Centroids = vfClone2D(idx.centroids)
	v.Lists = make([][]uint32, len(idx.lists))
	for li, l := range idx.lists {
		for _, cv := range l {
			id := cv.Node.ID()
			v.Lists[li] = append(v.Lists[li], id)
			code := make([]int, len(cv.Code))
			for j, c := range cv.Code {
				code[j] = int(c)
			}
			v.Codes[id] = code
			v.Stored[id] = vfCloneF32(cv.Node.Vector())
			v.ListOf[id] = li
		}
	}
	return v
}

func vfIVFPQDistance(idx *IVFPQIndex) Distance { return idx.distance }

// ---- HNSW ----

type vfHNSWSnap struct {
	Entry    uint32
	MaxLevel int
	Adj0     map[uint32][]uint32 // layer-0 out-edges of every resident vertex
	Level    map[uint32]int
	Deleted  map[uint32]bool
	M        int
}

func vfHNSWSnapOf(idx *HNSWIndex) vfHNSWSnap {
	idx.mu.RLock()
	defer idx.mu.RUnlock()
	s := vfHNSWSnap{Entry: idx.entryPoint, MaxLevel: idx.maxLevel, Adj0: map[uint32][]uint32{}, Level: map[uint32]int{}, Deleted: map[uint32]bool{}, M: idx.M}
	for id, n := range idx.nodes {
		if len(n.Edges) > 0 {
			s.Adj0[id] = append([]uint32(nil), n.Edges[0]...)
		} else {
			s.Adj0[id] = nil
		}
		s.Level[id] = n.Level
		if idx.deletedNodes.Contains(id) {
			s.Deleted[id] = true
		}
	}
	return s
}

// vfHNSWStoredDist is the index's own distance between two resident vertices.
func vfHNSWStoredDist(idx *HNSWIndex, a, b uint32) float32 {
	idx.mu.RLock()
	defer idx.mu.RUnlock()
	return idx.distance.Calculate(idx.nodes[a].Vector(), idx.nodes[b].Vector())
}

func vfHNSWStored(idx *HNSWIndex, id uint32) []float32 {
	idx.mu.RLock()
	defer idx.mu.RUnlock()
	if n := idx.nodes[id]; n != nil {
		return vfCloneF32(n.Vector())
	}
	return nil
}

// ---- flat ----

func vfFlatStored(idx *FlatIndex, id uint32) []float32 {
	idx.mu.RLock()
	defer idx.mu.RUnlock()
	for _, v := range idx.vectors {
		if v.ID() == id {
			return vfCloneF32(v.Vector())
		}
	}
	return nil
}

// ---- persistent store ----

func vfStoreRotate(st *PersistentHybridIndex) { st.memtableQueue.Rotate() }

// vfStoreKickFlushWorker wakes the background flush worker the way maybeScheduleFlush does.
func vfStoreKickFlushWorker(st *PersistentHybridIndex) {
	select {
	case st.flushChan <- struct{}{}:
	default:
	}
}

// vfStoreActiveHas: does the ACTIVE memtable hold this document? (the only place a store Remove acts on)
func vfStoreActiveHas(st *PersistentHybridIndex, id uint32) bool {
	st.memtableQueue.mu.RLock()
	mt := st.memtableQueue.mutable
	st.memtableQueue.mu.RUnlock()
	mt.mu.RLock()
	defer mt.mu.RUnlock()
	h, ok := mt.index.(*hybridSearchIndex)
	if !ok {
		return false
	}
	h.mu.RLock()
	defer h.mu.RUnlock()
	_, has := h.docInfo[id]
	return has
}
func vfStoreEvict(st *PersistentHybridIndex)             { st.segmentManager.EvictAllCaches() }
func vfStoreFrozenCount(st *PersistentHybridIndex) int   { return len(st.memtableQueue.listFrozen()) }
func vfStoreSegmentCount(st *PersistentHybridIndex) int  { return st.segmentManager.Count() }
func vfStoreCompactNow(st *PersistentHybridIndex) error  { return st.maybeCompact() }
func vfStoreMemtableCount(st *PersistentHybridIndex) int { return st.memtableQueue.Count() }

// vfStoreSegmentIDs lists the ids of the registered segments.
func vfStoreSegmentIDs(st *PersistentHybridIndex) []uint64 {
	var out []uint64
	for _, s := range st.segmentManager.list() {
		out = append(out, s.id)
	}
	return out
}

// vfStoreMemtableInstances returns the sub-index instances referenced by the memtables
// and by the configuration (for the load-aliasing counter).
func vfStoreMemtableInstances(st *PersistentHybridIndex) []interface{} {
	var out []interface{}
	add := func(x interface{}) {
		if x != nil {
			out = append(out, x)
		}
	}
	if st.config.VectorIndexTemplate != nil {
		add(st.config.VectorIndexTemplate)
	}
	if st.config.TextIndexTemplate != nil {
		add(st.config.TextIndexTemplate)
	}
	if st.config.MetadataIndexTemplate != nil {
		add(st.config.MetadataIndexTemplate)
	}
	for _, mt := range st.memtableQueue.list() {
		if v := mt.index.VectorIndex(); v != nil {
			add(v)
		}
		if v := mt.index.TextIndex(); v != nil {
			add(v)
		}
		if v := mt.index.MetadataIndex(); v != nil {
			add(v)
		}
	}
	return out
}

// vfInstallHook installs the verif handler (build tag verif).
func vfInstallHook(h func(name string, args ...any)) {
	if h == nil {
		verifSetHandler(nil)
		return
	}
	verifSetHandler(h)
}
