package comet

// The ONLY harness file that touches unexported identifiers of package comet
// (DESIGN 2.2). If the package is refactored, this is the file to adapt.

// ---- IVF ----

func vfIVFCentroids(idx *IVFIndex) [][]float32 {
	idx.mu.RLock()
	defer idx.mu.RUnlock()
	return vfClone2D(idx.centroids)
}

// vfIVFLists returns, per inverted list, the ids stored there (resident, incl. soft-deleted).
func vfIVFLists(idx *IVFIndex) [][]uint32 {
	idx.mu.RLock()
	defer idx.mu.RUnlock()
	out := make([][]uint32, len(idx.lists))
	for i, l := range idx.lists {
		for _, v := range l {
			out[i] = append(out[i], v.ID())
		}
	}
	return out
}

// vfIVFStored returns the stored (preprocessed) vector of an id, or nil.
func vfIVFStored(idx *IVFIndex, id uint32) []float32 {
	idx.mu.RLock()
	defer idx.mu.RUnlock()
	for _, l := range idx.lists {
		for _, v := range l {
			if v.ID() == id {
				return vfCloneF32(v.Vector())
			}
		}
	}
	return nil
}

func vfIVFDistance(idx *IVFIndex) Distance { return idx.distance }
