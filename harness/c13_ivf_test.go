package comet

// C13 — IVF is exact at full probe; fewer probes search the nearest clusters exactly.
// Oracle: full probe == C01 model; partial probe == exact top-k (float64) over the live
// vectors of the p nearest clusters (centroids / lists read through the accessor, every
// legal resolution of a centroid-distance tie at the boundary enumerated); rank-wise
// monotone in p; assignment invariant after every Add.

import (
	"fmt"
	"math"
	"sort"
	"testing"

	"pgregory.net/rapid"
)

type vfC13Case struct {
	Dim    int         `json:"dim"`
	Metric string      `json:"metric"`
	NList  int         `json:"nlist"`
	Train  [][]float32 `json:"train"`
	Ops    []vfVecOp   `json:"ops"`
}

func vfGenTrainingSet(rt *rapid.T, g *vfVecGen, minN, maxN int, nonZero bool) [][]float32 {
	n := rapid.IntRange(minN, maxN).Draw(rt, "n_train")
	shape := rapid.SampledFrom([]string{"free", "few_distinct", "collinear", "free"}).Draw(rt, "train_shape")
	var distinct [][]float32
	for i := 0; i < rapid.IntRange(1, 4).Draw(rt, "n_distinct"); i++ {
		distinct = append(distinct, g.drawNonZero(rt, "td"))
	}
	out := make([][]float32, 0, n)
	for i := 0; i < n; i++ {
		var v []float32
		switch shape {
		case "few_distinct":
			v = vfCloneF32(distinct[rapid.IntRange(0, len(distinct)-1).Draw(rt, "tw")])
		case "collinear":
			t := float32(rapid.IntRange(-6, 6).Draw(rt, "tt"))
			v = make([]float32, g.dim)
			for j := range v {
				v[j] = distinct[0][j] * t
			}
			if nonZero && vfIsZero(v) {
				copy(v, distinct[0])
			}
		default:
			if nonZero {
				v = g.drawNonZero(rt, "tv")
			} else {
				v = g.draw(rt, "tv")
			}
		}
		out = append(out, v)
	}
	return out
}

func vfC13Gen(rt *rapid.T) vfC13Case {
	c := vfC13Case{}
	c.Dim = rapid.IntRange(1, 16).Draw(rt, "dim")
	if rapid.IntRange(0, 2).Draw(rt, "lowdim") > 0 {
		c.Dim = rapid.IntRange(1, 3).Draw(rt, "dim_low")
	}
	kind := rapid.SampledFrom(vfMetrics).Draw(rt, "metric")
	c.Metric = string(kind)
	maxList, maxTrain := 8, 200
	if vfTierThorough() {
		maxList, maxTrain = 32, 500
	}
	c.NList = rapid.IntRange(1, maxList).Draw(rt, "nlist")
	g := vfNewVecGen(rt, c.Dim)
	hi := c.NList + 40
	if rapid.IntRange(0, 9).Draw(rt, "big_train") == 0 {
		hi = maxTrain
	}
	c.Train = vfGenTrainingSet(rt, g, c.NList, hi, kind == Cosine)

	used := map[uint32]bool{}
	var live, removed, all []uint32
	vecs := map[uint32][]float32{}
	trainUsed := map[int]bool{}
	opGen := rapid.Custom(func(rt *rapid.T) vfVecOp {
		w := rapid.IntRange(0, 99).Draw(rt, "opclass")
		switch {
		case w < 45 || len(all) == 0:
			var v []float32
			trainRef := 0
			if rapid.IntRange(0, 3).Draw(rt, "add_from_train") == 0 {
				ti := rapid.IntRange(0, len(c.Train)-1).Draw(rt, "train_idx")
				v = vfCloneF32(c.Train[ti])
				if !trainUsed[ti] && rapid.Bool().Draw(rt, "same_slice_as_train") {
					trainUsed[ti] = true
					trainRef = ti + 1
				}
			} else {
				v = g.draw(rt, "v")
			}
			if kind == Cosine && vfIsZero(v) {
				return vfVecOp{Op: "add_bad", ID: vfGenFreshID(rt, used), Vec: v}
			}
			id := uint32(0)
			if len(removed) > 0 && rapid.IntRange(0, 4).Draw(rt, "re_add_removed_id") == 0 {
				// update = remove + add: the id of a removed vector comes back with other content
				j := rapid.IntRange(0, len(removed)-1).Draw(rt, "re_add_idx")
				id = removed[j]
				removed = append(removed[:j:j], removed[j+1:]...)
				for _, l := range live {
					if l == id {
						id = 0 // (listed twice in removed: it is live again already)
					}
				}
			}
			if id == 0 {
				id = vfGenFreshID(rt, used)
				all = append(all, id)
			}
			live = append(live, id)
			vecs[id] = v
			return vfVecOp{Op: "add", ID: id, Vec: v, TrainRef: trainRef}
		case w < 58:
			var id uint32
			switch r := rapid.IntRange(0, 9).Draw(rt, "rmclass"); {
			case r < 7 && len(live) > 0:
				j := rapid.IntRange(0, len(live)-1).Draw(rt, "rm_idx")
				id = live[j]
				live = append(live[:j:j], live[j+1:]...)
				removed = append(removed, id)
			case r < 9 && len(removed) > 0:
				id = removed[rapid.IntRange(0, len(removed)-1).Draw(rt, "rm_again")]
			default:
				id = uint32(rapid.IntRange(200000, 200005).Draw(rt, "rm_unknown"))
			}
			return vfVecOp{Op: "remove", ID: id, Vec: vfGenRemovePayload(rt, g)}
		case w < 65:
			if len(live) >= 3 && rapid.IntRange(0, 2).Draw(rt, "purge") == 0 {
				// several removals at once, then a flush: the compaction sees many tombstones
				op := vfVecOp{Op: "purge"}
				var keep []uint32
				for _, id := range live {
					if rapid.Bool().Draw(rt, "purge_this") {
						op.IDs = append(op.IDs, id)
						removed = append(removed, id)
					} else {
						keep = append(keep, id)
					}
				}
				live = keep
				return op
			}
			return vfVecOp{Op: "flush"}
		default:
			var q []float32
			if kind == Cosine {
				q = g.drawNonZero(rt, "q")
			} else {
				q = g.draw(rt, "q")
			}
			var stored [][]float32
			for _, id := range all {
				stored = append(stored, vecs[id])
			}
			op := vfVecOp{Op: "search", Vec: q}
			op.K = vfGenK(rt, -2, len(live), 2)
			op.Thr = vfGenThreshold(rt, kind, q, stored)
			op.IDs = vfGenIDSubset(rt, all)
			op.NP = rapid.IntRange(-2, c.NList+2).Draw(rt, "nprobes")
			if rapid.IntRange(0, 4).Draw(rt, "thr_of_on") == 0 {
				op.Thr, op.ThrOf = 0, rapid.IntRange(1, 8).Draw(rt, "thr_of_rank")
			}
			return op
		}
	})
	c.Ops = vfListOf(rt, "ops", opGen, 1, 50)
	var q []float32
	if kind == Cosine {
		q = g.drawNonZero(rt, "q")
	} else {
		q = g.draw(rt, "q")
	}
	c.Ops = append(c.Ops, vfVecOp{Op: "search", Vec: q, K: rapid.IntRange(1, 5).Draw(rt, "k_last"), NP: rapid.IntRange(1, c.NList).Draw(rt, "np_last")})
	return c
}

// vfProbeSets enumerates the legal sets of probed lists: the p nearest centroids by the
// index's own distance, every resolution of a tie at the p-th position. ok=false when there
// are more than maxSets resolutions (the caller falls back to a validity-only check on the union).
func vfProbeSets(dists []float32, p int, maxSets int) (sets [][]int, union []int, ok bool) {
	type cd struct {
		i int
		d float32
	}
	l := make([]cd, len(dists))
	for i, d := range dists {
		l[i] = cd{i, d}
	}
	sort.SliceStable(l, func(a, b int) bool { return l[a].d < l[b].d })
	t := l[p-1].d
	var definite, tie []int
	for _, e := range l {
		if e.d < t {
			definite = append(definite, e.i)
		} else if e.d == t {
			tie = append(tie, e.i)
		}
	}
	need := p - len(definite)
	union = append(append([]int{}, definite...), tie...)
	// enumerate combinations of `need` out of tie
	var combos [][]int
	var rec func(start int, cur []int)
	rec = func(start int, cur []int) {
		if len(combos) > maxSets {
			return
		}
		if len(cur) == need {
			combos = append(combos, append([]int{}, cur...))
			return
		}
		for i := start; i < len(tie); i++ {
			rec(i+1, append(cur, tie[i]))
		}
	}
	rec(0, nil)
	if len(combos) > maxSets {
		return nil, union, false
	}
	for _, cb := range combos {
		sets = append(sets, append(append([]int{}, definite...), cb...))
	}
	return sets, union, true
}

func vfTierThorough() bool { return vfEnv("VERIF_TIER") == "thorough" }

func vfC13Run(c vfC13Case, ctx *vfCtx) *vfViolation {
	ctx.HistoryLen("history", len(c.Ops))
	kind := DistanceKind(c.Metric)
	idx, err := NewIVFIndex(c.Dim, c.NList, kind)
	if err != nil {
		return vfFail("NewIVFIndex: %v", err)
	}
	ctx.Class("metric=" + c.Metric)
	// adding or searching before training is an error
	probe := make([]float32, c.Dim)
	probe[0] = 1
	if err := idx.Add(*NewVectorNodeWithID(999999, vfCloneF32(probe))); err == nil {
		return vfFail("Add before Train succeeded")
	}
	if _, err := idx.NewSearch().WithQuery(vfCloneF32(probe)).WithK(1).Execute(); err == nil {
		return vfFail("search before Train succeeded")
	}
	if idx.Trained() {
		return vfFail("fresh index claims to be trained")
	}
	if len(c.Train) >= c.NList && c.NList > 1 {
		few := make([]VectorNode, c.NList-1)
		for i := range few {
			few[i] = *NewVectorNodeWithID(uint32(i+1), vfCloneF32(c.Train[i]))
		}
		if err := idx.Train(few); err == nil {
			return vfFail("Train accepted %d vectors for nlist=%d", len(few), c.NList)
		}
	}
	train := make([]VectorNode, len(c.Train))
	for i, v := range c.Train {
		train[i] = *NewVectorNodeWithID(uint32(i+1), vfCloneF32(v))
	}
	if len(c.Train) < c.NList {
		return nil // hand-edited replay outside the domain
	}
	if err := idx.Train(train); err != nil {
		return vfFail("Train(%d vectors, nlist=%d): %v", len(train), c.NList, err)
	}
	if !idx.Trained() {
		return vfFail("Trained() false after Train")
	}
	cents := vfIVFCentroids(idx)
	if len(cents) != c.NList {
		return vfFail("Train produced %d centroids for nlist=%d", len(cents), c.NList)
	}
	dist := vfIVFDistance(idx)
	m := vfNewVecModel(kind)
	// the placement clause for EVERY live vector, against the centroids as they are now: exactly one
	// list, the list of a nearest centroid; nothing unknown in any list; centroids fixed since Train
	verifyAll := func(when string) *vfViolation {
		now := vfIVFCentroids(idx)
		for ci := range cents {
			if !vfBitsEqual(now[ci], cents[ci]) {
				return vfFail("%s: centroid %d changed after training without another Train (%v -> %v)", when, ci, cents[ci], now[ci])
			}
		}
		where := map[uint32]int{}
		for li, l := range vfIVFLists(idx) {
			for _, id := range l {
				if _, live := m.live[id]; !live && !m.resident[id] {
					return vfFail("%s: list %d holds id %d, which is neither live nor awaiting a flush", when, li, id)
				}
				if prev, dup := where[id]; dup {
					return vfFail("%s: id %d is stored in lists %d and %d", when, id, prev, li)
				}
				where[id] = li
			}
		}
		for id := range m.live {
			li, ok := where[id]
			if !ok {
				return vfFail("%s: live id %d is in no inverted list", when, id)
			}
			st := vfIVFStored(idx, id)
			own := dist.Calculate(st, now[li])
			for ci := range now {
				d := dist.Calculate(st, now[ci])
				if d < own {
					return vfFail("%s: id %d sits in cluster %d (centroid distance %v) but centroid %d is nearer (%v)", when, id, li, own, ci, d)
				}
				// "nearest" is meant under the index's metric: the number the index ranks centroids by has
				// to BE that metric's distance between the vector and the centroid (float64 reference)
				if vfIsZero(now[ci]) && kind == Cosine {
					continue // no direction, no cosine distance
				}
				if want, tol := vfOracleDist(kind, m.live[id], now[ci]); math.Abs(float64(d)-want) > 4*tol+1e-6*math.Abs(want) {
					return vfFail("%s: the index ranks centroid %d at %v for vector %d, but their %s distance is %v (centroid %v, vector %v)", when, ci, d, id, kind, want, now[ci], m.live[id])
				}
			}
		}
		return nil
	}

	var keptSearch VectorSearch
	var keptHits []vfHit
	keptAt, mutations := -1, 0
	var oldSearch VectorSearch
	var oldBuild func() VectorSearch
	oldAt := -1
	for i, op := range c.Ops {
		if op.Op != "search" {
			mutations++
		}
		if op.Op == "purge" {
			for _, id := range op.IDs {
				if _, isLive := m.live[id]; !isLive {
					continue
				}
				if err := idx.Remove(*NewVectorNodeWithID(id, nil)); err != nil {
					return vfFail("op %d: Remove(%d) of a live vector failed: %v", i, id, err)
				}
				delete(m.live, id)
				m.resident[id] = true
			}
			ctx.Class("purge(several removals, then flush)")
			op.Op = "flush"
		}
		switch op.Op {
		case "add":
			if kind == Cosine && vfIsZero(op.Vec) || len(op.Vec) != c.Dim {
				continue
			}
			if _, dup := m.live[op.ID]; dup || op.ID == 0 {
				continue
			}
			if m.resident[op.ID] {
				// re-add of a removed, not yet flushed id: the stale entry has to go, wherever it sits
				delete(m.resident, op.ID)
				ctx.Class("re_add_of_a_removed_id")
			}
			payload := vfCloneF32(op.Vec)
			if op.TrainRef > 0 && op.TrainRef <= len(train) && vfBitsEqual(train[op.TrainRef-1].Vector(), op.Vec) {
				// the caller re-uses the slice it trained with (the library may normalise it in place)
				payload = train[op.TrainRef-1].Vector()
				ctx.Class("add_of_the_slice_handed_to_Train")
			}
			if err := idx.Add(*NewVectorNodeWithID(op.ID, payload)); err != nil {
				return vfFail("op %d: Add(%d): %v", i, op.ID, err)
			}
			m.live[op.ID] = op.Vec
			// assignment invariant: exactly one list, and its centroid is a nearest one
			where := -1
			for li, l := range vfIVFLists(idx) {
				for _, id := range l {
					if id == op.ID {
						if where >= 0 {
							return vfFail("op %d: id %d is stored in lists %d and %d", i, op.ID, where, li)
						}
						where = li
					}
				}
			}
			if where < 0 {
				return vfFail("op %d: id %d is in no inverted list after Add", i, op.ID)
			}
			st := vfIVFStored(idx, op.ID)
			own := dist.Calculate(st, cents[where])
			for ci := range cents {
				if d := dist.Calculate(st, cents[ci]); d < own {
					return vfFail("op %d: id %d stored in cluster %d (centroid distance %v) but centroid %d is nearer (%v)", i, op.ID, where, own, ci, d)
				}
			}
		case "add_bad":
			if err := idx.Add(*NewVectorNodeWithID(op.ID, vfCloneF32(op.Vec))); err == nil {
				return vfFail("op %d: Add of an invalid vector succeeded", i)
			}
		case "remove":
			err := idx.Remove(*NewVectorNodeWithID(op.ID, vfCloneF32(op.Vec)))
			_, isLive := m.live[op.ID]
			if isLive && err != nil {
				return vfFail("op %d: Remove(%d) of a live vector failed: %v", i, op.ID, err)
			}
			if !isLive && err == nil {
				return vfFail("op %d: Remove(%d) of an unknown / removed id succeeded", i, op.ID)
			}
			if isLive {
				delete(m.live, op.ID)
				m.resident[op.ID] = true
			}
		case "flush":
			if err := idx.Flush(); err != nil {
				return vfFail("op %d: Flush: %v", i, err)
			}
			m.resident = map[uint32]bool{}
			if v := verifyAll(fmt.Sprintf("op %d (after Flush)", i)); v != nil {
				return v
			}
		case "search":
			if len(op.Vec) != c.Dim || kind == Cosine && vfIsZero(op.Vec) {
				continue
			}
			exec := func(np int) ([]vfHit, error) {
				s := idx.NewSearch().WithQuery(vfCloneF32(op.Vec)).WithK(op.K).WithThreshold(op.Thr).WithNProbes(np)
				if len(op.IDs) > 0 {
					s = s.WithDocumentIDs(op.IDs...)
				}
				r, err := s.Execute()
				if err == nil && len(op.IDs) > 0 {
					if keptSearch != nil && keptAt == mutations {
						again, err2 := keptSearch.Execute()
						if err2 != nil {
							return nil, fmt.Errorf("re-executing an earlier restricted search: %w", err2)
						}
						a := vfHitsOf(again)
						if len(a) != len(keptHits) {
							return nil, fmt.Errorf("an earlier restricted search object returned %d results when it was first executed and %d now, after another restricted search ran (no add / remove / flush in between)", len(keptHits), len(a))
						}
						for j := range a {
							if a[j].Score != keptHits[j].Score {
								return nil, fmt.Errorf("an earlier restricted search object returns score %v at rank %d now, %v when it was first executed", a[j].Score, j, keptHits[j].Score)
							}
						}
					}
					keptSearch, keptHits, keptAt = s, vfHitsOf(r), mutations
				}
				if err == nil {
					// a search object kept across adds / removes / flushes answers exactly as a new object
					// built with the same parameters does now
					if oldSearch != nil && oldAt != mutations {
						if msg := vfSameAnswer(oldSearch, oldBuild()); msg != "" {
							return nil, fmt.Errorf("a search object first executed %d mutations ago, executed again: %s", mutations-oldAt, msg)
						}
						ctx.Class("kept_search_object_compared_with_a_new_one_after_mutations")
						oldSearch = nil
					}
					if oldSearch == nil {
						vec, ids, k, thr := vfCloneF32(op.Vec), append([]uint32(nil), op.IDs...), op.K, op.Thr
						oldSearch, oldAt = s, mutations
						oldBuild = func() VectorSearch {
							n := idx.NewSearch().WithQuery(vfCloneF32(vec)).WithK(k).WithThreshold(thr).WithNProbes(np)
							if len(ids) > 0 {
								n = n.WithDocumentIDs(ids...)
							}
							return n
						}
					}
				}
				// the same search object executed again answers the same (nothing of the first run may leak
				// into the second: scratch buffers, sorted copies, pooled filters)
				if err == nil && (i+np)%2 == 0 {
					r2, err2 := s.Execute()
					if err2 != nil {
						return nil, fmt.Errorf("second Execute of the same search: %w", err2)
					}
					a, b := vfHitsOf(r), vfHitsOf(r2)
					if len(a) != len(b) {
						return nil, fmt.Errorf("the same search object returns %d results on its first Execute and %d on its second", len(a), len(b))
					}
					for j := range a {
						if a[j].Score != b[j].Score {
							return nil, fmt.Errorf("the same search object returns score %v at rank %d on its first Execute and %v on its second", a[j].Score, j, b[j].Score)
						}
					}
				}
				return vfHitsOf(r), err
			}
			if op.ThrOf > 0 {
				sAll := idx.NewSearch().WithQuery(vfCloneF32(op.Vec)).WithK(0).WithNProbes(op.NP)
				if len(op.IDs) > 0 {
					sAll = sAll.WithDocumentIDs(op.IDs...)
				}
				rAll, err := sAll.Execute()
				if err != nil {
					return vfFail("op %d: search: %v", i, err)
				}
				un := vfHitsOf(rAll)
				op.Thr = 0
				if len(un) > 0 {
					op.Thr = un[(op.ThrOf-1)%len(un)].Score
					got, err := exec(op.NP)
					if err != nil {
						return vfFail("op %d: search: %v", i, err)
					}
					if v := vfThresholdRelation(un, got, op.Thr, op.K); v != nil {
						v.Msg = fmt.Sprintf("op %d (nprobes=%d): %s", i, op.NP, v.Msg)
						return v
					}
					ctx.Class("threshold_equal_to_a_reported_score")
				}
			}
			hits, err := exec(op.NP)
			if err != nil {
				return vfFail("op %d: search: %v", i, err)
			}
			all := m.candidates(op.Vec, op.Thr, op.IDs)
			full := op.NP <= 0 || op.NP >= c.NList
			if full {
				if v := vfCompareTopK(hits, all, op.K, true); v != nil {
					v.Msg = fmt.Sprintf("op %d full-probe search (nprobes=%d, nlist=%d, k=%d): %s", i, op.NP, c.NList, op.K, v.Msg)
					return v
				}
				ctx.Class("search_full_probe")
				continue
			}
			// partial probe
			pq, err := dist.Preprocess(vfCloneF32(op.Vec))
			if err != nil {
				return vfFail("op %d: preprocess of the query failed: %v", i, err)
			}
			cd := make([]float32, len(cents))
			for ci := range cents {
				cd[ci] = dist.Calculate(pq, cents[ci])
			}
			lists := vfIVFLists(idx)
			sets, union, ok := vfProbeSets(cd, op.NP, 64)
			inLists := func(ls []int) map[uint32]bool {
				s := map[uint32]bool{}
				for _, li := range ls {
					for _, id := range lists[li] {
						s[id] = true
					}
				}
				return s
			}
			restrict := func(members map[uint32]bool) []vfCand {
				var out []vfCand
				for _, cnd := range all {
					if members[cnd.ID] {
						out = append(out, cnd)
					}
				}
				return out
			}
			if !ok {
				// too many tie resolutions: validity only, against the union of candidate lists
				ctx.Class("search_partial_tie_ambiguous(validity only)")
				u := restrict(inLists(union))
				byID := map[uint32]vfCand{}
				for _, cnd := range u {
					byID[cnd.ID] = cnd
				}
				seenTie := map[uint32]bool{}
				for r, h := range hits {
					cnd, in := byID[h.ID]
					if !in {
						return vfFail("op %d partial probe: id %d is not a live vector of any cluster that may be probed", i, h.ID)
					}
					if d := float64(h.Score) - cnd.Want; d > cnd.Tol || -d > cnd.Tol {
						return vfFail("op %d partial probe: id %d score %v oracle %v", i, h.ID, h.Score, cnd.Want)
					}
					if seenTie[h.ID] {
						return vfFail("op %d partial probe: id %d returned twice", i, h.ID)
					}
					seenTie[h.ID] = true
					if r > 0 && hits[r-1].Score > h.Score {
						return vfFail("op %d partial probe: results out of order at rank %d", i, r)
					}
				}
				if op.K > 0 && len(hits) > op.K {
					return vfFail("op %d partial probe: %d results for k=%d", i, len(hits), op.K)
				}
				continue
			}
			var first *vfViolation
			matched := false
			var matchedCands []vfCand
			for _, set := range sets {
				cands := restrict(inLists(set))
				v := vfCompareTopK(hits, cands, op.K, true)
				if v == nil {
					matched = true
					matchedCands = cands
					break
				}
				if first == nil {
					first = v
				}
			}
			if !matched {
				first.Msg = fmt.Sprintf("op %d partial-probe search (nprobes=%d of %d, k=%d, %d legal probe sets, centroid distances %v): %s", i, op.NP, c.NList, op.K, len(sets), cd, first.Msg)
				return first
			}
			ctx.Class("search_partial_probe")
			ctx.ClassIf(len(sets) > 1, "search_partial_with_centroid_tie")
			// non-trivial: something the exact search would return lies outside the probed clusters
			nonEmpty := 0
			for _, l := range lists {
				if len(l) > 0 {
					nonEmpty++
				}
			}
			if nonEmpty >= 2 && len(matchedCands) < len(all) && len(hits) > 0 {
				in := map[uint32]bool{}
				for _, cnd := range matchedCands {
					in[cnd.ID] = true
				}
				worst := float64(hits[len(hits)-1].Score)
				for _, cnd := range all {
					if !in[cnd.ID] && (cnd.Want < worst || len(hits) < vfExpectedCount(op.K, len(all))) {
						ctx.NonTrivial()
						break
					}
				}
			}
			// rank-wise monotone in p
			more, err := exec(op.NP + 1)
			if err != nil {
				return vfFail("op %d: search with nprobes=%d: %v", i, op.NP+1, err)
			}
			if len(more) < len(hits) {
				return vfFail("op %d: nprobes=%d returns %d results but nprobes=%d returns only %d", i, op.NP, len(hits), op.NP+1, len(more))
			}
			for r := range hits {
				if more[r].Score > hits[r].Score {
					return vfFail("op %d: rank %d: score %v with %d probes is worse than %v with %d probes", i, r, more[r].Score, op.NP+1, hits[r].Score, op.NP)
				}
			}
		}
	}
	return verifyAll("end of the history")
}

func TestVerif_C13(t *testing.T) { vfCheck(t, "C13", vfC13Gen, vfC13Run) }
