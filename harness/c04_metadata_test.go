package comet

// C04 — metadata filters return exactly the documents that satisfy the predicate.
// Oracle: per-document predicate evaluator over plain Go maps (ordinary comparison
// semantics, floats at two-decimal fixed point). RoaringBitmap / BSI are NOT trusted.

import (
	"fmt"
	"math"
	"math/big"
	"sort"
	"testing"

	"pgregory.net/rapid"
)

// vfMVal is one metadata value in JSON-friendly form.
type vfMVal struct {
	T string  `json:"t"` // s | b | i | i64 | f
	S string  `json:"s,omitempty"`
	B bool    `json:"b,omitempty"`
	I int64   `json:"i,omitempty"`
	F float64 `json:"f,omitempty"`
}

func (v vfMVal) goValue() interface{} {
	switch v.T {
	case "s":
		return v.S
	case "b":
		return v.B
	case "i":
		return int(v.I)
	case "i64":
		return v.I
	default:
		return v.F
	}
}

// fixed returns the numeric value at the index's fixed-point scale.
func (v vfMVal) fixed() int64 {
	if v.T == "f" {
		return int64(v.F * 100)
	}
	return v.I
}

// vfCents is the value at two-decimal fixed point whatever Go type carries it: integers times 100,
// floats truncated to cents (the generated floats are those where truncation and rounding agree).
func (v vfMVal) cents() *big.Int {
	if v.T == "f" {
		return big.NewInt(int64(v.F * 100))
	}
	return new(big.Int).Mul(big.NewInt(v.I), big.NewInt(100))
}

// vfCmpNumeric compares a stored value with an operand under ordinary comparison semantics. Same
// representation on both sides: the index's own fixed-point images (exact, also for huge integers);
// an integer against a float: in cents.
func vfCmpNumeric(stored, operand vfMVal) int {
	if (stored.T == "f") == (operand.T == "f") {
		a, b := stored.fixed(), operand.fixed()
		switch {
		case a < b:
			return -1
		case a > b:
			return 1
		}
		return 0
	}
	return stored.cents().Cmp(operand.cents())
}

const vfKF3 = "KF-3"

// vfCrossTyped: a numeric filter whose operand is an integer on a float field or a float on an integer field
func vfCrossTyped(f *vfMFilter) bool {
	typ := vfMFields[f.Field]
	if !vfIsNumericType(typ) {
		return false
	}
	for _, o := range []*vfMVal{f.V, f.V2} {
		if o != nil && (o.T == "f") != (typ == "f") {
			return true
		}
	}
	return false
}

func (v vfMVal) cat() string {
	if v.T == "b" {
		return fmt.Sprintf("%v", v.B)
	}
	return v.S
}

type vfMFilter struct {
	Field string   `json:"field"`
	Op    string   `json:"op"`
	V     *vfMVal  `json:"v,omitempty"`
	V2    *vfMVal  `json:"v2,omitempty"`
	List  []vfMVal `json:"list,omitempty"`
	Not   bool     `json:"not,omitempty"`
	// the library filter is additionally wrapped in Not(Not(...)): the same predicate
	NotTwice bool `json:"not_twice,omitempty"`
}

type vfMOp struct {
	Op     string            `json:"op"` // add | remove | search
	ID     uint32            `json:"id,omitempty"`
	Meta   map[string]vfMVal `json:"meta,omitempty"`
	Entry  string            `json:"entry,omitempty"` // filters | groups | builder
	Groups [][]vfMFilter     `json:"groups,omitempty"`
	// entry "groups": OrInside[g] makes group g a FilterGroup{Logic: OR} (the library's other group
	// logic: any filter of the group suffices); groups are still OR-ed with each other
	OrInside []bool `json:"or_inside,omitempty"`
}

type vfC04Case struct {
	Ops []vfMOp `json:"ops"`
}

// field name -> type; "zz*" fields are never stored (absent from the index)
var vfMFields = map[string]string{"s1": "s", "s2": "s", "b1": "b", "i1": "i", "i2": "i64", "f1": "f", "zzs": "s", "zzn": "i"}
var vfMFieldNames = []string{"s1", "s2", "b1", "i1", "i2", "f1"}
var vfMStrings = []string{"", "a", "a:b", ":", "x y", "true", "b", "a"}
var vfMInts = []int64{0, 1, -1, 7, -7, 2, -2, 3, 100, -100}
var vfMBig = []int64{0, 1, -1, 7, -7, 1 << 40, -(1 << 40), 1 << 62, -(1 << 62), math.MinInt64, math.MaxInt64, math.MinInt64 + 1, math.MaxInt64 - 1}

func vfGenMVal(rt *rapid.T, typ string, label string) vfMVal {
	switch typ {
	case "s":
		return vfMVal{T: "s", S: rapid.SampledFrom(vfMStrings).Draw(rt, label+"_s")}
	case "b":
		return vfMVal{T: "b", B: rapid.Bool().Draw(rt, label+"_b")}
	case "i":
		if rapid.IntRange(0, 4).Draw(rt, label+"_irange") == 0 {
			return vfMVal{T: "i", I: int64(rapid.IntRange(-1000, 1000).Draw(rt, label+"_iany"))}
		}
		return vfMVal{T: "i", I: rapid.SampledFrom(vfMInts).Draw(rt, label+"_i")}
	case "i64":
		if rapid.Bool().Draw(rt, label+"_small64") {
			return vfMVal{T: "i64", I: rapid.SampledFrom(vfMInts).Draw(rt, label+"_i64s")}
		}
		return vfMVal{T: "i64", I: rapid.SampledFrom(vfMBig).Draw(rt, label+"_i64")}
	default:
		// cents + a sub-cent part in [0.1,0.4] (so that truncation and rounding to two decimals
		// agree), or exactly representable quarters; both signs; > 2 decimals included
		cents := int64(rapid.IntRange(-300, 300).Draw(rt, label+"_cents"))
		if rapid.IntRange(0, 3).Draw(rt, label+"_quarter") == 0 {
			return vfMVal{T: "f", F: float64(rapid.IntRange(-8, 8).Draw(rt, label+"_q")) * 0.25}
		}
		sub := rapid.SampledFrom([]float64{0.1, 0.2, 0.25, 0.3, 0.4}).Draw(rt, label+"_sub")
		f := (math.Abs(float64(cents)) + sub) / 100
		if cents < 0 {
			f = -f
		}
		if int64(f*100) != cents { // keep only values whose fixed-point image is unambiguous
			f = float64(cents) / 4
		}
		return vfMVal{T: "f", F: f}
	}
}

func vfGenMFilter(rt *rapid.T, stored map[string][]vfMVal) vfMFilter {
	return vfGenMFilterLike(rt, stored, nil)
}

// vfGenMFilterLike: with like != nil the filter is a sibling of an earlier filter of the same
// search: same field, same operator (or another one with the same operand), one operand kept and
// one changed - the shape that trips caches keyed on part of a filter.
func vfGenMFilterLike(rt *rapid.T, stored map[string][]vfMVal, like *vfMFilter) vfMFilter {
	names := append([]string{}, vfMFieldNames...)
	if rapid.IntRange(0, 7).Draw(rt, "absent_field") == 0 {
		names = []string{"zzs", "zzn"}
	}
	field := rapid.SampledFrom(names).Draw(rt, "field")
	if like != nil {
		field = like.Field
	}
	typ := vfMFields[field]
	f := vfMFilter{Field: field}
	// operand: a stored value, a neighbour of one, or a fresh one
	operand := func(label string) *vfMVal {
		// one numeric operand in eight has the OTHER numeric Go type (an int against a float field, as in
		// the package documentation's Lt("price", 50); a float against an integer field)
		if (typ == "i" || typ == "i64" || typ == "f") && field != "zzn" && rapid.IntRange(0, 7).Draw(rt, label+"_cross_typed") == 0 {
			if typ == "f" {
				return &vfMVal{T: "i", I: int64(rapid.IntRange(-4, 4).Draw(rt, label+"_cross_int"))}
			}
			k := float64(rapid.IntRange(-8, 8).Draw(rt, label+"_cross_k"))
			return &vfMVal{T: "f", F: k + rapid.SampledFrom([]float64{0, 0.5, 0.25}).Draw(rt, label+"_cross_frac")}
		}
		if vals := stored[field]; len(vals) > 0 && rapid.IntRange(0, 2).Draw(rt, label+"_from_stored") > 0 {
			v := vals[rapid.IntRange(0, len(vals)-1).Draw(rt, label+"_stored_idx")]
			if (typ == "i" || typ == "i64") && rapid.IntRange(0, 2).Draw(rt, label+"_neighbour") == 0 {
				d := int64(rapid.SampledFrom([]int{-1, 1}).Draw(rt, label+"_delta"))
				if !(v.I == math.MaxInt64 && d > 0) && !(v.I == math.MinInt64 && d < 0) {
					v.I += d
				}
			}
			return &v
		}
		v := vfGenMVal(rt, typ, label)
		return &v
	}
	numeric := typ == "i" || typ == "i64" || typ == "f"
	var ops []string
	if numeric {
		ops = []string{"eq", "ne", "lt", "lte", "gt", "gte", "range", "exists", "not_exists"}
	} else {
		ops = []string{"eq", "ne", "in", "not_in", "exists", "not_exists", "eq", "ne"}
	}
	if field == "zzn" {
		// "ne" with a numeric operand on a never-seen field is ambiguous in the statement: not generated
		ops = []string{"eq", "lt", "lte", "gt", "gte", "range", "exists", "not_exists"}
	}
	f.Op = rapid.SampledFrom(ops).Draw(rt, "operator")
	if like != nil {
		f.Not = like.Not
		switch how := rapid.IntRange(0, 3).Draw(rt, "sibling_how"); {
		case like.Op == "range" && how < 3:
			f.Op = "range"
			f.V, f.V2 = like.V, like.V2
			if how == 0 {
				f.V = operand("lo")
			} else {
				f.V2 = operand("hi")
			}
			return f
		case (like.Op == "in" || like.Op == "not_in") && how < 3:
			f.Op = like.Op
			f.List = append([]vfMVal{}, like.List...)
			switch {
			case how == 0 && len(f.List) > 0:
				f.List = f.List[:len(f.List)-1]
			case how == 1 && len(f.List) >= 2 && typ == "s":
				// the same words as one value: In(f, "a b") versus In(f, "a", "b")
				f.List = []vfMVal{{T: "s", S: f.List[0].S + " " + f.List[1].S}}
			default:
				f.List = append(f.List, *operand("list"))
			}
			return f
		case like.V != nil && like.V2 == nil && f.Op != "range" && f.Op != "in" && f.Op != "not_in" && f.Op != "exists" && f.Op != "not_exists":
			// another operator (possibly the same) on the same operand, or the negation
			f.V = like.V
			if how == 0 {
				f.Not = !like.Not
			}
			return f
		}
		f.Not = false
	}
	switch f.Op {
	case "range":
		f.V, f.V2 = operand("lo"), operand("hi")
		if rapid.IntRange(0, 3).Draw(rt, "order_range") > 0 && f.V.fixed() > f.V2.fixed() {
			f.V, f.V2 = f.V2, f.V
		}
	case "in", "not_in":
		n := rapid.IntRange(0, 3).Draw(rt, "list_len")
		for i := 0; i < n; i++ {
			f.List = append(f.List, *operand("list"))
		}
	case "exists", "not_exists":
	default:
		f.V = operand("v")
	}
	f.Not = rapid.IntRange(0, 4).Draw(rt, "negate") == 0
	f.NotTwice = rapid.IntRange(0, 7).Draw(rt, "negate_twice") == 0
	if f.Op == "range" && vfEnv("VERIF_C04_NO_NOT_RANGE") != "" {
		f.Not = false // development switch used once to isolate F8 from F9
	}
	return f
}

func vfC04Gen(rt *rapid.T) vfC04Case {
	c := vfC04Case{}
	used := map[uint32]bool{}
	var live []uint32
	stored := map[string][]vfMVal{}
	opGen := rapid.Custom(func(rt *rapid.T) vfMOp {
		w := rapid.IntRange(0, 99).Draw(rt, "opclass")
		switch {
		case w < 40 || len(live) == 0 && w < 60:
			id := vfGenFreshID(rt, used)
			meta := map[string]vfMVal{}
			for _, name := range vfMFieldNames {
				if rapid.IntRange(0, 2).Draw(rt, "has_"+name) > 0 {
					v := vfGenMVal(rt, vfMFields[name], name)
					meta[name] = v
					stored[name] = append(stored[name], v)
				}
			}
			live = append(live, id)
			return vfMOp{Op: "add", ID: id, Meta: meta}
		case w < 50:
			var id uint32
			if len(live) > 0 && rapid.IntRange(0, 4).Draw(rt, "rm_known") > 0 {
				j := rapid.IntRange(0, len(live)-1).Draw(rt, "rm_idx")
				id = live[j]
				live = append(live[:j:j], live[j+1:]...)
			} else {
				id = uint32(rapid.IntRange(200000, 200005).Draw(rt, "rm_unknown"))
			}
			return vfMOp{Op: "remove", ID: id}
		default:
			op := vfMOp{Op: "search"}
			op.Entry = rapid.SampledFrom([]string{"filters", "groups", "builder"}).Draw(rt, "entry")
			ng := 1
			if op.Entry != "filters" {
				ng = rapid.IntRange(1, 3).Draw(rt, "n_groups")
			}
			var prevFilters []vfMFilter
			for g := 0; g < ng; g++ {
				nf := rapid.IntRange(1, 4).Draw(rt, "n_filters")
				if op.Entry != "builder" && rapid.IntRange(0, 9).Draw(rt, "empty_group") == 0 {
					nf = 0
				}
				var grp []vfMFilter
				for j := 0; j < nf; j++ {
					if len(prevFilters) > 0 && rapid.IntRange(0, 3).Draw(rt, "sibling") == 0 {
						like := prevFilters[rapid.IntRange(0, len(prevFilters)-1).Draw(rt, "sibling_of")]
						grp = append(grp, vfGenMFilterLike(rt, stored, &like))
					} else {
						grp = append(grp, vfGenMFilter(rt, stored))
					}
					prevFilters = append(prevFilters, grp[len(grp)-1])
				}
				op.Groups = append(op.Groups, grp)
				op.OrInside = append(op.OrInside, op.Entry == "groups" && len(grp) >= 2 && rapid.IntRange(0, 3).Draw(rt, "or_inside_group") == 0)
			}
			return op
		}
	})
	c.Ops = vfListOf(rt, "ops", opGen, 1, 40)
	c.Ops = append(c.Ops, vfMOp{Op: "search", Entry: "filters", Groups: [][]vfMFilter{{vfGenMFilter(rt, stored)}}})
	return c
}

// ---- oracle ------------------------------------------------------------------------

type vfMetaModel struct {
	docs map[uint32]map[string]vfMVal
}

func vfIsNumericType(t string) bool { return t == "i" || t == "i64" || t == "f" }

// evalBase evaluates one un-negated filter on one document; universe tells whether the
// document belongs to the universe inside which Not() complements this filter.
func vfEvalBase(f *vfMFilter, doc map[string]vfMVal) (match, universe bool) {
	v, has := doc[f.Field]
	typ := vfMFields[f.Field]
	switch f.Op {
	case "exists":
		return has, true
	case "not_exists":
		return !has, true
	}
	if vfIsNumericType(typ) {
		if !has {
			return false, false // numeric comparisons live in the "has the field" universe
		}
		switch f.Op {
		case "eq":
			return vfCmpNumeric(v, *f.V) == 0, true
		case "ne":
			return vfCmpNumeric(v, *f.V) != 0, true
		case "lt":
			return vfCmpNumeric(v, *f.V) < 0, true
		case "lte":
			return vfCmpNumeric(v, *f.V) <= 0, true
		case "gt":
			return vfCmpNumeric(v, *f.V) > 0, true
		case "gte":
			return vfCmpNumeric(v, *f.V) >= 0, true
		case "range":
			return vfCmpNumeric(v, *f.V) >= 0 && vfCmpNumeric(v, *f.V2) <= 0, true
		}
		return false, true
	}
	switch f.Op {
	case "eq":
		return has && v.cat() == f.V.cat(), true
	case "ne":
		return !(has && v.cat() == f.V.cat()), true
	case "in", "not_in":
		in := false
		for _, e := range f.List {
			if has && v.cat() == e.cat() {
				in = true
			}
		}
		if f.Op == "in" {
			return in, true
		}
		return !in, true
	}
	return false, true
}

func vfEvalFilter(f *vfMFilter, doc map[string]vfMVal) bool {
	m, u := vfEvalBase(f, doc)
	if f.Not {
		return u && !m
	}
	return m
}

func (m *vfMetaModel) eval(groups [][]vfMFilter, entry string) []uint32 {
	return m.evalLogic(groups, nil)
}

func (m *vfMetaModel) evalLogic(groups [][]vfMFilter, orInside []bool) []uint32 {
	var out []uint32
	for id, doc := range m.docs {
		ok := false
		if len(groups) == 0 {
			ok = true
		}
		for gi, g := range groups {
			all := true
			if gi < len(orInside) && orInside[gi] && len(g) >= 2 {
				all = false
				for i := range g {
					if vfEvalFilter(&g[i], doc) {
						all = true
						break
					}
				}
			} else {
				for i := range g {
					if !vfEvalFilter(&g[i], doc) {
						all = false
						break
					}
				}
			}
			if all {
				ok = true
				break
			}
		}
		if ok {
			out = append(out, id)
		}
	}
	sort.Slice(out, func(i, j int) bool { return out[i] < out[j] })
	return out
}

// vfToFilter builds the comet Filter for a model filter through the public constructors.
func vfToFilter(f *vfMFilter) Filter {
	var out Filter
	switch f.Op {
	case "eq":
		out = Eq(f.Field, f.V.goValue())
	case "ne":
		out = Ne(f.Field, f.V.goValue())
	case "lt":
		out = Lt(f.Field, f.V.goValue())
	case "lte":
		out = Lte(f.Field, f.V.goValue())
	case "gt":
		out = Gt(f.Field, f.V.goValue())
	case "gte":
		out = Gte(f.Field, f.V.goValue())
	case "range":
		out = Range(f.Field, f.V.goValue(), f.V2.goValue())
	case "in", "not_in":
		vals := make([]interface{}, len(f.List))
		for i, e := range f.List {
			vals[i] = e.goValue()
		}
		if f.Op == "in" {
			out = In(f.Field, vals...)
		} else {
			out = NotIn(f.Field, vals...)
		}
	case "exists":
		out = Exists(f.Field)
	case "not_exists":
		out = NotExists(f.Field)
	}
	if f.Not {
		out = Not(out)
	}
	if f.NotTwice {
		out = Not(Not(out))
	}
	return out
}

func vfMetaIDs(res []MetadataResult) []uint32 {
	out := make([]uint32, len(res))
	for i, r := range res {
		out[i] = r.GetId()
	}
	sort.Slice(out, func(i, j int) bool { return out[i] < out[j] })
	return out
}

func vfMetaToGo(meta map[string]vfMVal) map[string]interface{} {
	out := map[string]interface{}{}
	for k, v := range meta {
		out[k] = v.goValue()
	}
	return out
}

func vfDescribeFilters(groups [][]vfMFilter) string {
	s := ""
	for gi, g := range groups {
		if gi > 0 {
			s += " OR "
		}
		s += "("
		for i, f := range g {
			if i > 0 {
				s += " AND "
			}
			if f.Not {
				s += "NOT "
			}
			s += f.Field + " " + f.Op
			if f.V != nil {
				s += fmt.Sprintf(" %v", f.V.goValue())
			}
			if f.V2 != nil {
				s += fmt.Sprintf("..%v", f.V2.goValue())
			}
			if f.List != nil {
				for _, e := range f.List {
					s += fmt.Sprintf(" %q", e.cat())
				}
			}
		}
		s += ")"
	}
	return s
}

// vfRunMetaSearch executes the expression through one of the three entry points.
func vfRunMetaSearch(idx MetadataIndex, op *vfMOp) ([]uint32, error) {
	switch op.Entry {
	case "filters":
		var fs []Filter
		if len(op.Groups) > 0 {
			for i := range op.Groups[0] {
				fs = append(fs, vfToFilter(&op.Groups[0][i]))
			}
		}
		r, err := idx.NewSearch().WithFilters(fs...).Execute()
		return vfMetaIDs(r), err
	case "groups":
		var gs []*FilterGroup
		for gi, g := range op.Groups {
			fg := &FilterGroup{Logic: AND}
			if gi < len(op.OrInside) && op.OrInside[gi] && len(g) >= 2 {
				fg.Logic = OR
			}
			for i := range g {
				fg.Filters = append(fg.Filters, vfToFilter(&g[i]))
			}
			gs = append(gs, fg)
		}
		r, err := idx.NewSearch().WithFilterGroups(gs...).Execute()
		return vfMetaIDs(r), err
	default:
		qb := NewMetadataFilterQuery()
		for gi, g := range op.Groups {
			var fs []Filter
			for i := range g {
				fs = append(fs, vfToFilter(&g[i]))
			}
			// groups with several filters are split: the first filter opens the group (Where / Or), the
			// rest are attached with And (documented: "adds filters with AND logic to the last group")
			head, tail := fs, []Filter(nil)
			if len(fs) >= 2 && (len(fs)+gi)%2 == 0 {
				head, tail = fs[:1], fs[1:]
			}
			if gi == 0 {
				qb = qb.Where(head...)
			} else {
				qb = qb.Or(head...)
			}
			if len(tail) > 0 {
				qb = qb.And(tail...)
			}
		}
		r, err := qb.Execute(idx)
		return vfMetaIDs(r), err
	}
}

func vfC04Run(c vfC04Case, ctx *vfCtx) *vfViolation {
	ctx.HistoryLen("history", len(c.Ops))
	idx := NewRoaringMetadataIndex()
	m := &vfMetaModel{docs: map[uint32]map[string]vfMVal{}}
	removedMatching := false
	everStored := map[string]bool{}
	for i := range c.Ops {
		op := &c.Ops[i]
		switch op.Op {
		case "add":
			if _, dup := m.docs[op.ID]; dup || op.ID == 0 {
				continue
			}
			if err := idx.Add(*NewMetadataNodeWithID(op.ID, vfMetaToGo(op.Meta))); err != nil {
				return vfFail("op %d: Add(%d, %v): %v", i, op.ID, op.Meta, err)
			}
			m.docs[op.ID] = op.Meta
			for k := range op.Meta {
				everStored[k] = true
			}
		case "remove":
			// Remove takes a node: with its metadata (as a caller that still holds the document would
			// pass it) or with the id only
			var rmMeta map[string]interface{}
			if doc, ok := m.docs[op.ID]; ok && (i+int(op.ID))%2 == 0 {
				rmMeta = vfMetaToGo(doc)
				ctx.Class("remove_with_full_node")
			}
			if err := idx.Remove(*NewMetadataNodeWithID(op.ID, rmMeta)); err != nil {
				if _, ok := m.docs[op.ID]; ok {
					return vfFail("op %d: Remove(%d) of a live document failed: %v", i, op.ID, err)
				}
			}
			if _, ok := m.docs[op.ID]; ok {
				removedMatching = true
			}
			delete(m.docs, op.ID)
		case "search":
			// "ne" (also as Not(eq)) with a numeric operand on a field that was never stored is
			// ambiguous in the statement (the index cannot know the field is numeric): skipped, counted
			ambiguous := false
			for _, g := range op.Groups {
				for _, f := range g {
					if vfIsNumericType(vfMFields[f.Field]) && !everStored[f.Field] && (f.Op == "ne" && !f.Not || f.Op == "eq" && f.Not) {
						ambiguous = true
					}
				}
			}
			if ambiguous {
				ctx.Class("ne_numeric_on_never_stored_field(skipped)")
				continue
			}
			crossTyped := false
			for _, g := range op.Groups {
				for fi := range g {
					crossTyped = crossTyped || vfCrossTyped(&g[fi])
				}
			}
			if crossTyped && ctx.AttrActive(vfKF3) {
				// open finding KF-3 (operands are converted by their own Go type, not the field's): such
				// searches are excluded while it still reproduces, and counted
				ctx.Excluded(1)
				ctx.Class("cross_typed_numeric_operand(excluded: KF-3)")
				continue
			}
			groups := op.Groups
			if op.Entry == "filters" && len(groups) > 1 {
				groups = groups[:1]
			}
			if op.Entry == "filters" && len(groups) == 1 && len(groups[0]) == 0 {
				groups = nil // an empty filter list returns all live documents
			}
			got, err := vfRunMetaSearch(idx, op)
			expr := vfDescribeFilters(op.Groups)
			if err != nil {
				return vfFail("op %d: search %s via %s failed: %v", i, expr, op.Entry, err)
			}
			var orFlags []bool
			if op.Entry == "groups" {
				orFlags = op.OrInside
			}
			want := m.evalLogic(groups, orFlags)
			for _, o := range orFlags {
				ctx.ClassIf(o, "group_with_OR_logic_inside")
			}
			if fmt.Sprint(got) != fmt.Sprint(want) {
				if crossTyped {
					return vfFailAttr(vfKF3, "op %d: search %s via %s over %d live documents returned ids %v, ordinary comparison selects %v (an operand has the other numeric Go type than the field's values); documents: %s", i, expr, op.Entry, len(m.docs), got, want, vfDescribeDocs(m, got, want))
				}
				return vfFail("op %d: search %s via %s over %d live documents returned ids %v, the predicate selects %v; documents: %s", i, expr, op.Entry, len(m.docs), got, want, vfDescribeDocs(m, got, want))
			}
			if len(want) > 0 && len(want) < len(m.docs) || removedMatching && len(m.docs) > 0 {
				ctx.NonTrivial()
			}
			ctx.Class("entry=" + op.Entry)
			for _, g := range op.Groups {
				for _, f := range g {
					ctx.Class("op=" + f.Op)
					ctx.ClassIf(f.Not, "negated")
					ctx.ClassIf(f.Field == "zzs" || f.Field == "zzn", "absent_field")
				}
			}
		}
	}
	return nil
}

func vfDescribeDocs(m *vfMetaModel, got, want []uint32) string {
	diff := map[uint32]bool{}
	in := map[uint32]int{}
	for _, id := range got {
		in[id] |= 1
	}
	for _, id := range want {
		in[id] |= 2
	}
	for id, w := range in {
		if w != 3 {
			diff[id] = true
		}
	}
	s := ""
	n := 0
	for id := range diff {
		if n >= 4 {
			break
		}
		n++
		s += fmt.Sprintf("[%d:", id)
		doc := m.docs[id]
		keys := make([]string, 0, len(doc))
		for k := range doc {
			keys = append(keys, k)
		}
		sort.Strings(keys)
		for _, k := range keys {
			s += fmt.Sprintf(" %s=%v", k, doc[k].goValue())
		}
		s += "] "
	}
	return s
}

func TestVerif_C04(t *testing.T) { vfCheck(t, "C04", vfC04Gen, vfC04Run) }
