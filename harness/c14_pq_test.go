package comet

// C14 — PQ and IVFPQ rank by exact asymmetric distance to each vector's quantised form.
// Oracle: codes, reconstructions and asymmetric distances recomputed in float64 from the
// trained codebooks (read through the accessor); exact top-k by that score.

import (
	"fmt"
	"math"
	"testing"

	"pgregory.net/rapid"
)

type vfC14Case struct {
	Kind   string      `json:"kind"` // pq | ivfpq
	Metric string      `json:"metric"`
	M      int         `json:"m"`
	Dsub   int         `json:"dsub"`
	NBits  int         `json:"nbits"`
	NList  int         `json:"nlist"`
	Train  [][]float32 `json:"train"`
	Ops    []vfVecOp   `json:"ops"`
}

func vfC14Gen(rt *rapid.T) vfC14Case {
	c := vfC14Case{}
	c.Kind = rapid.SampledFrom([]string{"pq", "ivfpq"}).Draw(rt, "kind")
	kind := rapid.SampledFrom(vfMetrics).Draw(rt, "metric")
	c.Metric = string(kind)
	c.M = rapid.IntRange(1, 8).Draw(rt, "m")
	c.Dsub = rapid.IntRange(1, 4).Draw(rt, "dsub")
	// every nbits the constructor might accept is asked for; training cost bounds how
	// often the large ones are drawn
	maxBits := 10
	if vfTierThorough() {
		maxBits = 12
	}
	switch w := rapid.IntRange(0, 99).Draw(rt, "nbits_class"); {
	case w < 70:
		c.NBits = rapid.IntRange(1, 4).Draw(rt, "nbits")
	case w < 90:
		c.NBits = rapid.IntRange(5, 8).Draw(rt, "nbits")
	case w < 97:
		c.NBits = rapid.IntRange(9, maxBits).Draw(rt, "nbits")
	default:
		c.NBits = rapid.IntRange(13, 17).Draw(rt, "nbits") // constructor boundary; never trained (see run)
	}
	c.NList = rapid.IntRange(1, 16).Draw(rt, "nlist")
	if rapid.Bool().Draw(rt, "small_nlist") {
		c.NList = rapid.IntRange(1, 4).Draw(rt, "nlist_small")
	}
	dim := c.M * c.Dsub
	g := vfNewVecGen(rt, dim)
	ksub := 1 << c.NBits
	minAccepted := ksub
	if c.Kind == "ivfpq" && c.NList*10 > minAccepted {
		minAccepted = c.NList * 10
	}
	if c.NBits <= 12 {
		n := minAccepted + rapid.SampledFrom([]int{0, 0, 1, 3, 17, 60}).Draw(rt, "train_extra")
		if rapid.IntRange(0, 9).Draw(rt, "train_too_small") == 0 {
			// a size somewhere below the documented minimum (PQ: 2^nbits, IVFPQ: nlist*10): Train must fail cleanly
			lo := 1
			n = rapid.IntRange(lo, minAccepted-1+vfBool2Int(minAccepted == 1)).Draw(rt, "train_small_n")
		}
		c.Train = vfGenTrainingSet(rt, g, n, n, kind == Cosine)
	}

	used := map[uint32]bool{}
	var live, removed, all []uint32
	vecs := map[uint32][]float32{}
	opGen := rapid.Custom(func(rt *rapid.T) vfVecOp {
		w := rapid.IntRange(0, 99).Draw(rt, "opclass")
		switch {
		case w < 35 || len(all) == 0:
			var v []float32
			if len(c.Train) > 0 && rapid.IntRange(0, 2).Draw(rt, "add_from_train") == 0 {
				v = vfCloneF32(c.Train[rapid.IntRange(0, len(c.Train)-1).Draw(rt, "train_idx")])
			} else {
				v = g.draw(rt, "v")
			}
			if kind == Cosine && vfIsZero(v) {
				return vfVecOp{Op: "add_bad", ID: vfGenFreshID(rt, used), Vec: v}
			}
			id := uint32(0)
			if len(removed) > 0 && rapid.IntRange(0, 4).Draw(rt, "re_add_removed_id") == 0 {
				// update = remove + add: the id of a removed vector comes back with other content
				j := rapid.IntRange(0, len(removed)-1).Draw(rt, "re_add_idx")
				id = removed[j]
				removed = append(removed[:j:j], removed[j+1:]...)
				for _, l := range live {
					if l == id {
						id = 0 // (listed twice in removed: it is live again already)
					}
				}
			}
			if id == 0 {
				id = vfGenFreshID(rt, used)
				all = append(all, id)
			}
			live = append(live, id)
			vecs[id] = v
			return vfVecOp{Op: "add", ID: id, Vec: v}
		case w < 45:
			// a vector that coincides with its own reconstruction: built at run time from the
			// trained codebooks (and, for ivfpq, one centroid)
			id := vfGenFreshID(rt, used)
			code := make([]int, c.M)
			for i := range code {
				code[i] = rapid.IntRange(0, ksub-1).Draw(rt, "recon_code")
			}
			live = append(live, id)
			all = append(all, id)
			return vfVecOp{Op: "add_recon", ID: id, Code: code, List: rapid.IntRange(0, c.NList-1).Draw(rt, "recon_list")}
		case w < 57:
			var id uint32
			switch r := rapid.IntRange(0, 9).Draw(rt, "rmclass"); {
			case r < 7 && len(live) > 0:
				j := rapid.IntRange(0, len(live)-1).Draw(rt, "rm_idx")
				id = live[j]
				live = append(live[:j:j], live[j+1:]...)
				removed = append(removed, id)
			case r < 9 && len(removed) > 0:
				id = removed[rapid.IntRange(0, len(removed)-1).Draw(rt, "rm_again")]
			default:
				id = uint32(rapid.IntRange(200000, 200005).Draw(rt, "rm_unknown"))
			}
			return vfVecOp{Op: "remove", ID: id, Vec: vfGenRemovePayload(rt, g)}
		case w < 64:
			if len(live) >= 3 && rapid.IntRange(0, 2).Draw(rt, "purge") == 0 {
				// several removals at once, then a flush: the compaction sees many tombstones
				op := vfVecOp{Op: "purge"}
				var keep []uint32
				for _, id := range live {
					if rapid.Bool().Draw(rt, "purge_this") {
						op.IDs = append(op.IDs, id)
						removed = append(removed, id)
					} else {
						keep = append(keep, id)
					}
				}
				live = keep
				return op
			}
			return vfVecOp{Op: "flush"}
		default:
			var q []float32
			if kind == Cosine {
				q = g.drawNonZero(rt, "q")
			} else {
				q = g.draw(rt, "q")
			}
			op := vfVecOp{Op: "search", Vec: q}
			op.K = vfGenK(rt, -2, len(live), 2)
			switch rapid.IntRange(0, 3).Draw(rt, "thr_class") {
			case 0:
				op.Thr = float32(rapid.Float64Range(0, 6).Draw(rt, "thr"))
			case 1:
				op.ThrOf = rapid.IntRange(1, 8).Draw(rt, "thr_of_rank") // resolved at run time: the score of the hit at that rank
			}
			op.IDs = vfGenIDSubset(rt, all)
			op.NP = rapid.IntRange(-1, c.NList+1).Draw(rt, "nprobes")
			return op
		}
	})
	c.Ops = vfListOf(rt, "ops", opGen, 1, 40)
	var q []float32
	if kind == Cosine {
		q = g.drawNonZero(rt, "q")
	} else {
		q = g.draw(rt, "q")
	}
	c.Ops = append(c.Ops, vfVecOp{Op: "search", Vec: q, K: rapid.IntRange(1, 4).Draw(rt, "k_last"), NP: rapid.IntRange(0, c.NList).Draw(rt, "np_last")})
	return c
}

func vfBool2Int(b bool) int {
	if b {
		return 1
	}
	return 0
}

func vfNorm64(v []float64) float64 {
	var s float64
	for _, x := range v {
		s += x * x
	}
	return math.Sqrt(s)
}

// vfRefPreprocess is the float64 reference of the metric's preprocessing.
func vfRefPreprocess(kind DistanceKind, v []float32) []float64 {
	out := make([]float64, len(v))
	for i, x := range v {
		out[i] = float64(x)
	}
	if kind == Cosine {
		n := vfNorm64(out)
		for i := range out {
			out[i] /= n
		}
	}
	return out
}

func vfRecon(view *vfPQView, code []int) []float64 {
	out := make([]float64, 0, view.M*view.Dsub)
	for m := 0; m < view.M; m++ {
		cw := view.Codebooks[m][code[m]*view.Dsub : (code[m]+1)*view.Dsub]
		for _, x := range cw {
			out = append(out, float64(x))
		}
	}
	return out
}

func vfC14Run(c vfC14Case, ctx *vfCtx) *vfViolation {
	ctx.HistoryLen("history", len(c.Ops))
	kind := DistanceKind(c.Metric)
	dim := c.M * c.Dsub
	var idx VectorIndex
	var err error
	if c.Kind == "pq" {
		idx, err = NewPQIndex(dim, kind, c.M, c.NBits)
	} else {
		idx, err = NewIVFPQIndex(dim, kind, c.NList, c.M, c.NBits)
	}
	ctx.Class("kind=" + c.Kind)
	if err != nil {
		if c.NBits >= 1 && c.NBits <= 8 {
			return vfFail("constructor rejected a valid configuration (dim %d, M %d, nbits %d, nlist %d): %v", dim, c.M, c.NBits, c.NList, err)
		}
		ctx.Class("constructor_rejected_nbits")
		return nil
	}
	if c.NBits > 16 {
		return vfFail("constructor accepted nbits=%d", c.NBits)
	}
	if len(c.Train) == 0 {
		ctx.Class("accepted_but_not_trained(nbits>12: cost bound)")
		return nil
	}
	ksub := 1 << c.NBits
	train := make([]VectorNode, len(c.Train))
	for i, v := range c.Train {
		train[i] = *NewVectorNodeWithID(uint32(i+1), vfCloneF32(v))
	}
	// (6) Train never panics on any size (vfSafe turns a panic into a violation)
	if err := idx.Train(train); err != nil {
		docMin := ksub
		if c.Kind == "ivfpq" {
			docMin = c.NList * 10
			if ksub > docMin {
				docMin = ksub
			}
		}
		if len(train) >= docMin {
			return vfFail("Train rejected %d vectors (dim %d, M %d, nbits %d, nlist %d): %v", len(train), dim, c.M, c.NBits, c.NList, err)
		}
		if idx.Trained() {
			return vfFail("Trained() true after a failed Train")
		}
		probe := make([]float32, dim)
		probe[0] = 1
		if err := idx.Add(*NewVectorNodeWithID(1, probe)); err == nil {
			return vfFail("Add on an untrained index succeeded")
		}
		ctx.Class("train_rejected_small_set")
		return nil
	}
	if !idx.Trained() {
		return vfFail("Trained() false after Train")
	}
	ctx.Class(fmt.Sprintf("nbits=%d", c.NBits))

	pqIdx, _ := idx.(*PQIndex)
	ivIdx, _ := idx.(*IVFPQIndex)
	view := func() vfIVFPQView {
		if pqIdx != nil {
			return vfIVFPQView{vfPQView: vfPQViewOf(pqIdx)}
		}
		return vfIVFPQViewOf(ivIdx)
	}
	v0 := view()
	if len(v0.Codebooks) != c.M {
		return vfFail("trained index has %d codebooks, want M=%d", len(v0.Codebooks), c.M)
	}
	for m := range v0.Codebooks {
		if len(v0.Codebooks[m]) != ksub*c.Dsub {
			return vfFail("codebook %d has %d floats, want 2^nbits*dsub = %d", m, len(v0.Codebooks[m]), ksub*c.Dsub)
		}
	}
	if ivIdx != nil && len(v0.Centroids) != c.NList {
		return vfFail("trained index has %d coarse centroids, want %d", len(v0.Centroids), c.NList)
	}

	live := map[uint32][]float32{} // id -> original vector as handed to Add
	resident := map[uint32]bool{}
	eps := 4 * float64(dim/2+6) * vfEps32

	// reference score of one stored vector for a preprocessed query
	refScore := func(vw *vfIVFPQView, q []float64, id uint32) (score, tol float64) {
		rec := vfRecon(&vw.vfPQView, vw.Codes[id])
		var s, mag float64
		for d := range rec {
			x := q[d]
			if ivIdx != nil {
				x -= float64(vw.Centroids[vw.ListOf[id]][d])
				mag += math.Abs(float64(vw.Centroids[vw.ListOf[id]][d]))
			}
			diff := x - rec[d]
			s += diff * diff
		}
		w := math.Sqrt(s)
		return w, eps*(w+vfNorm64(q)+vfNorm64(rec)+mag) + 1e-30
	}

	// placement and code of ONE live vector, against the codebooks / centroids / rows as they are
	// now: stored vector = preprocessed input, cluster = a nearest one, code = an arg-min codeword
	checkStored := func(when string, id uint32, vec []float32, vw *vfIVFPQView) *vfViolation {
		code, okc := vw.Codes[id]
		st := vw.Stored[id]
		if !okc || len(code) != c.M || len(st) != dim {
			return vfFail("%s: id %d is not stored with a code of length M", when, id)
		}
		pre := vfRefPreprocess(kind, vec)
		for d := range st {
			if math.Abs(float64(st[d])-pre[d]) > eps*(1+math.Abs(pre[d])) {
				return vfFail("%s: id %d: stored vector is not the preprocessed input at coordinate %d: %v vs %v", when, id, d, st[d], pre[d])
			}
		}
		target := make([]float64, dim)
		for d := range target {
			target[d] = float64(st[d])
			if ivIdx != nil {
				// the assigned cluster must be a nearest one (by the index's own distance)
				target[d] -= float64(vw.Centroids[vw.ListOf[id]][d])
			}
		}
		if ivIdx != nil {
			dist := vfIVFPQDistance(ivIdx)
			own := dist.Calculate(st, vw.Centroids[vw.ListOf[id]])
			for ci := range vw.Centroids {
				d := dist.Calculate(st, vw.Centroids[ci])
				if d < own {
					return vfFail("%s: id %d assigned to cluster %d (centroid distance %v) but centroid %d is nearer (%v)", when, id, vw.ListOf[id], own, ci, d)
				}
				// the ranking number is the metric's distance between vector and centroid (float64 reference)
				if kind == Cosine && vfIsZero(vw.Centroids[ci]) {
					continue
				}
				if want, tol := vfOracleDist(kind, vec, vw.Centroids[ci]); math.Abs(float64(d)-want) > 4*tol+1e-6*math.Abs(want) {
					return vfFail("%s: the index ranks coarse centroid %d at %v for vector %d, but their %s distance is %v", when, ci, d, id, kind, want)
				}
			}
		}
		for m := 0; m < c.M; m++ {
			if code[m] < 0 || code[m] >= ksub {
				return vfFail("%s: id %d: code[%d]=%d outside [0,%d)", when, id, m, code[m], ksub)
			}
			sub := target[m*c.Dsub : (m+1)*c.Dsub]
			// squared distance to codeword k and the error a float32 evaluation may carry: every
			// difference is formed from float32 values of magnitude mag (stored value, coarse
			// centroid, codeword), so it is off by up to ~2^-22*mag regardless of how small it is
			d2 := func(k int) (float64, float64) {
				var s, tol float64
				for j := range sub {
					cw := float64(vw.Codebooks[m][k*c.Dsub+j])
					diff := sub[j] - cw
					mag := math.Abs(float64(st[m*c.Dsub+j])) + math.Abs(cw)
					if ivIdx != nil {
						mag += math.Abs(float64(vw.Centroids[vw.ListOf[id]][m*c.Dsub+j]))
					}
					e := 4 * vfEps32 * mag
					s += diff * diff
					tol += 2*math.Abs(diff)*e + e*e
				}
				return s, tol + 4*float64(c.Dsub)*vfEps32*s + 1e-30
			}
			own, ownTol := d2(code[m])
			for k := 0; k < ksub; k++ {
				if o, oTol := d2(k); o+oTol < own-ownTol {
					return vfFail("%s: id %d subspace %d: stored code %d is at squared distance %v but codeword %d is nearer (%v) — not the nearest codeword (nbits=%d)", when, id, m, code[m], own, k, o, c.NBits)
				}
			}
		}
		return nil
	}
	// after a Flush and at the end: the rows of the index are exactly the live vectors (nothing
	// tombstoned left, nothing resurrected, nothing lost), each still with its own code
	checkAllStored := func(when string, flushed bool) *vfViolation {
		vw := view()
		for id := range vw.Codes {
			if _, ok := live[id]; !ok && (flushed || !resident[id]) {
				return vfFail("%s: the index holds a row for id %d, which is not a live vector%s", when, id, map[bool]string{true: " (it was removed before this Flush)", false: ""}[flushed])
			}
		}
		for id, vec := range live {
			if _, ok := vw.Codes[id]; !ok {
				return vfFail("%s: live id %d has no row in the index", when, id)
			}
			if v := checkStored(when, id, vec, &vw); v != nil {
				return v
			}
		}
		return nil
	}
	var keptSearch VectorSearch
	var keptHits []vfHit
	keptAt, mutations := -1, 0
	var oldSearch VectorSearch
	var oldBuild func() VectorSearch
	oldAt := -1
	for i, op := range c.Ops {
		if op.Op != "search" {
			mutations++
		}
		if op.Op == "purge" {
			for _, id := range op.IDs {
				if _, isLive := live[id]; !isLive {
					continue
				}
				if err := idx.Remove(*NewVectorNodeWithID(id, nil)); err != nil {
					return vfFail("op %d: Remove(%d) of a live vector failed: %v", i, id, err)
				}
				delete(live, id)
				resident[id] = true
			}
			ctx.Class("purge(several removals, then flush)")
			op.Op = "flush"
		}
		switch op.Op {
		case "add", "add_recon":
			vec := op.Vec
			if op.Op == "add_recon" {
				if len(op.Code) != c.M {
					continue
				}
				ok := true
				for _, cd := range op.Code {
					if cd < 0 || cd >= ksub {
						ok = false
					}
				}
				if !ok || ivIdx != nil && (op.List < 0 || op.List >= c.NList) {
					continue
				}
				rec := vfRecon(&v0.vfPQView, op.Code)
				vec = make([]float32, dim)
				for d := range vec {
					x := rec[d]
					if ivIdx != nil {
						x += float64(v0.Centroids[op.List][d])
					}
					vec[d] = float32(x)
				}
				if kind == Cosine && vfIsZero(vec) {
					continue
				}
			}
			if len(vec) != dim || kind == Cosine && vfIsZero(vec) {
				continue
			}
			if _, dup := live[op.ID]; dup || op.ID == 0 {
				continue
			}
			if resident[op.ID] {
				delete(resident, op.ID)
				ctx.Class("re_add_of_a_removed_id")
			}
			if err := idx.Add(*NewVectorNodeWithID(op.ID, vfCloneF32(vec))); err != nil {
				return vfFail("op %d: Add(%d): %v", i, op.ID, err)
			}
			live[op.ID] = vec
			vw := view()
			if v := checkStored(fmt.Sprintf("op %d", i), op.ID, vec, &vw); v != nil {
				return v
			}
		case "add_bad":
			if err := idx.Add(*NewVectorNodeWithID(op.ID, vfCloneF32(op.Vec))); err == nil {
				return vfFail("op %d: Add of an invalid vector succeeded", i)
			}
		case "remove":
			err := idx.Remove(*NewVectorNodeWithID(op.ID, vfCloneF32(op.Vec)))
			_, isLive := live[op.ID]
			if isLive && err != nil {
				return vfFail("op %d: Remove(%d) of a live vector failed: %v", i, op.ID, err)
			}
			if !isLive && err == nil {
				return vfFail("op %d: Remove(%d) of an unknown / removed id succeeded", i, op.ID)
			}
			if isLive {
				delete(live, op.ID)
				resident[op.ID] = true
			}
		case "flush":
			if err := idx.Flush(); err != nil {
				return vfFail("op %d: Flush: %v", i, err)
			}
			resident = map[uint32]bool{}
			if v := checkAllStored(fmt.Sprintf("op %d (after Flush)", i), true); v != nil {
				return v
			}
		case "search":
			if len(op.Vec) != dim || kind == Cosine && vfIsZero(op.Vec) {
				continue
			}
			vw := view()
			q := vfRefPreprocess(kind, op.Vec)
			thr := op.Thr
			exec := func(thr float32) ([]vfHit, error) {
				s := idx.NewSearch().WithQuery(vfCloneF32(op.Vec)).WithK(op.K).WithThreshold(thr).WithNProbes(op.NP)
				if len(op.IDs) > 0 {
					s = s.WithDocumentIDs(op.IDs...)
				}
				r, err := s.Execute()
				if err == nil && len(op.IDs) > 0 {
					// a search object that is kept and executed again later - after OTHER restricted searches
					// have run - still answers for its own restriction (nothing it holds may have gone back
					// to a pool in between)
					if keptSearch != nil && keptAt == mutations {
						again, err2 := keptSearch.Execute()
						if err2 != nil {
							return nil, fmt.Errorf("re-executing an earlier restricted search: %w", err2)
						}
						a := vfHitsOf(again)
						if len(a) != len(keptHits) {
							return nil, fmt.Errorf("an earlier restricted search object returned %d results when it was first executed and %d now, after another restricted search ran (no add / remove / flush in between)", len(keptHits), len(a))
						}
						for j := range a {
							if a[j].Score != keptHits[j].Score {
								return nil, fmt.Errorf("an earlier restricted search object returns score %v at rank %d now, %v when it was first executed", a[j].Score, j, keptHits[j].Score)
							}
						}
					}
					keptSearch, keptHits, keptAt = s, vfHitsOf(r), mutations
				}
				if err == nil {
					// a search object kept across adds / removes / flushes answers exactly as a new object
					// built with the same parameters does now (nothing of an earlier execution - a clamped k,
					// a cached candidate list - may stay behind in it)
					if oldSearch != nil && oldAt != mutations {
						if msg := vfSameAnswer(oldSearch, oldBuild()); msg != "" {
							return nil, fmt.Errorf("a search object first executed %d mutations ago, executed again: %s", mutations-oldAt, msg)
						}
						ctx.Class("kept_search_object_compared_with_a_new_one_after_mutations")
						oldSearch = nil
					}
					if oldSearch == nil {
						vec, ids, k, np := vfCloneF32(op.Vec), append([]uint32(nil), op.IDs...), op.K, op.NP
						oldSearch, oldAt = s, mutations
						oldBuild = func() VectorSearch {
							n := idx.NewSearch().WithQuery(vfCloneF32(vec)).WithK(k).WithThreshold(thr).WithNProbes(np)
							if len(ids) > 0 {
								n = n.WithDocumentIDs(ids...)
							}
							return n
						}
					}
				}
				return vfHitsOf(r), err
			}
			var unthresholded []vfHit
			if op.ThrOf > 0 {
				// threshold = exactly the reported score of some hit of the unthresholded, unlimited search
				sAll := idx.NewSearch().WithQuery(vfCloneF32(op.Vec)).WithK(0).WithNProbes(op.NP)
				if len(op.IDs) > 0 {
					sAll = sAll.WithDocumentIDs(op.IDs...)
				}
				rAll, err := sAll.Execute()
				if err != nil {
					return vfFail("op %d: search: %v", i, err)
				}
				unthresholded = vfHitsOf(rAll)
				if len(unthresholded) > 0 {
					thr = unthresholded[(op.ThrOf-1)%len(unthresholded)].Score
				}
			}
			hits, err := exec(thr)
			if err != nil {
				return vfFail("op %d: search: %v", i, err)
			}
			if op.ThrOf > 0 && thr > 0 {
				if v := vfThresholdRelation(unthresholded, hits, thr, op.K); v != nil {
					v.Msg = fmt.Sprintf("op %d %s search: %s", i, c.Kind, v.Msg)
					return v
				}
				ctx.Class("threshold_equal_to_a_reported_score")
			}
			var restrict map[uint32]bool
			if len(op.IDs) > 0 {
				restrict = map[uint32]bool{}
				for _, id := range op.IDs {
					restrict[id] = true
				}
			}
			candsIn := func(member func(uint32) bool) []vfCand {
				var out []vfCand
				for id := range live {
					if restrict != nil && !restrict[id] || !member(id) {
						continue
					}
					w, tol := refScore(&vw, q, id)
					cnd := vfCand{ID: id, Want: w, Tol: tol}
					if thr > 0 {
						if w-tol > float64(thr) {
							continue
						}
						if w+tol > float64(thr) {
							cnd.Optional = true
						}
					}
					out = append(out, cnd)
				}
				return out
			}
			var matchedCands []vfCand
			full := pqIdx != nil || op.NP <= 0 || op.NP >= c.NList
			if full {
				cands := candsIn(func(uint32) bool { return true })
				if v := vfCompareTopK(hits, cands, op.K, true); v != nil {
					v.Msg = fmt.Sprintf("op %d %s search (k=%d, thr=%v, nprobes=%d): %s", i, c.Kind, op.K, thr, op.NP, v.Msg)
					return v
				}
				matchedCands = cands
			} else {
				dist := vfIVFPQDistance(ivIdx)
				pq, err := dist.Preprocess(vfCloneF32(op.Vec))
				if err != nil {
					return vfFail("op %d: preprocess failed: %v", i, err)
				}
				cd := make([]float32, len(vw.Centroids))
				for ci := range vw.Centroids {
					cd[ci] = dist.Calculate(pq, vw.Centroids[ci])
				}
				sets, _, ok := vfProbeSets(cd, op.NP, 64)
				if !ok {
					// too many tie resolutions to enumerate: every hit is still a live vector with the score
					// its code defines, once, in order, at most k of them
					ctx.Class("partial_tie_ambiguous(validity only)")
					byID := map[uint32]vfCand{}
					for _, cnd := range candsIn(func(uint32) bool { return true }) {
						byID[cnd.ID] = cnd
					}
					seenTie := map[uint32]bool{}
					for r, h := range hits {
						cnd, in := byID[h.ID]
						if !in {
							return vfFail("op %d partial probe: id %d is not an eligible live vector", i, h.ID)
						}
						if d := float64(h.Score) - cnd.Want; d > cnd.Tol || -d > cnd.Tol {
							return vfFail("op %d partial probe: id %d score %v, its code defines %v", i, h.ID, h.Score, cnd.Want)
						}
						if seenTie[h.ID] {
							return vfFail("op %d partial probe: id %d returned twice", i, h.ID)
						}
						seenTie[h.ID] = true
						if r > 0 && hits[r-1].Score > h.Score {
							return vfFail("op %d partial probe: results out of order at rank %d", i, r)
						}
					}
					if op.K > 0 && len(hits) > op.K {
						return vfFail("op %d partial probe: %d results for k=%d", i, len(hits), op.K)
					}
					continue
				}
				var first *vfViolation
				matched := false
				for _, set := range sets {
					in := map[int]bool{}
					for _, li := range set {
						in[li] = true
					}
					cands := candsIn(func(id uint32) bool { return in[vw.ListOf[id]] })
					v := vfCompareTopK(hits, cands, op.K, true)
					if v == nil {
						matched, matchedCands = true, cands
						break
					}
					if first == nil {
						first = v
					}
				}
				if !matched {
					first.Msg = fmt.Sprintf("op %d ivfpq partial-probe search (nprobes=%d of %d, k=%d, %d legal probe sets): %s", i, op.NP, c.NList, op.K, len(sets), first.Msg)
					return first
				}
				ctx.Class("search_partial_probe")
			}
			// (4),(5): every reported score is within the vector's quantisation error of its true distance
			for _, h := range hits {
				st := vw.Stored[h.ID]
				rec := vfRecon(&vw.vfPQView, vw.Codes[h.ID])
				var qe, td float64
				for d := range rec {
					full := rec[d]
					if ivIdx != nil {
						full += float64(vw.Centroids[vw.ListOf[h.ID]][d])
					}
					qe += (float64(st[d]) - full) * (float64(st[d]) - full)
					td += (q[d] - float64(st[d])) * (q[d] - float64(st[d]))
				}
				qe, td = math.Sqrt(qe), math.Sqrt(td)
				_, tol := refScore(&vw, q, h.ID)
				if math.Abs(float64(h.Score)-td) > qe+tol {
					return vfFail("op %d: id %d: score %v differs from the true Euclidean distance %v by more than its quantisation error %v", i, h.ID, h.Score, td, qe)
				}
				if qe <= tol {
					ctx.Class("hit_coinciding_with_its_reconstruction")
				}
			}
			distinctCodes := map[string]bool{}
			for id := range live {
				distinctCodes[fmt.Sprint(vw.Codes[id])] = true
			}
			if len(distinctCodes) >= 2 && len(hits) > 0 && len(hits) < len(matchedCands) {
				ctx.NonTrivial()
			}
			ctx.Class("searches")
		}
	}
	return checkAllStored("end of the history", false)
}

func TestVerif_C14(t *testing.T) { vfCheck(t, "C14", vfC14Gen, vfC14Run) }
