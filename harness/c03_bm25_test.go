package comet

// C03 — BM25 search returns exactly the matching documents with textbook scores.
// Oracle: textbook Okapi BM25 recomputed in float64 from an independent corpus model;
// tokens come from the uax29 / x/text libraries directly (DESIGN 3.4), not from comet.

import (
	"fmt"
	"math"
	"sort"
	"strings"
	"testing"

	"github.com/clipperhouse/uax29/v2/words"
	"golang.org/x/text/unicode/norm"
	"pgregory.net/rapid"
)

type vfTOp struct {
	Op   string   `json:"op"` // add | remove | flush | search
	ID   uint32   `json:"id,omitempty"`
	Text string   `json:"text,omitempty"`
	Qs   []string `json:"qs,omitempty"`
	K    int      `json:"k,omitempty"`
	IDs  []uint32 `json:"ids,omitempty"`
	Agg  string   `json:"agg,omitempty"`
}

type vfC03Case struct {
	Ops []vfTOp `json:"ops"`
}

var vfVocab = []string{"a", "B", "fox", "Fox", "ﬁsh", "fish", "é", "é", "３", "3", "3.14", "can't", "日本", "🙂", "zeta", "™", "Ⅳ", "iv", "tm", "İ", "ß", "x"}
var vfSeps = []string{" ", " ", " ", "  ", ", ", "-", "\n", "", ".", "\t"}

func vfGenText(rt *rapid.T, label string, maxTokens int) string {
	n := rapid.IntRange(0, maxTokens).Draw(rt, label+"_n")
	var sb strings.Builder
	for i := 0; i < n; i++ {
		sb.WriteString(rapid.SampledFrom(vfVocab).Draw(rt, label+"_w"))
		sb.WriteString(rapid.SampledFrom(vfSeps).Draw(rt, label+"_s"))
	}
	return sb.String()
}

// vfTokens is the reference tokeniser: UAX#29 segments of ToLower(NFKC(text)).
func vfTokens(s string) []string {
	s = strings.ToLower(norm.NFKC.String(s))
	it := words.FromString(s)
	var out []string
	for it.Next() {
		out = append(out, it.Value())
	}
	return out
}

func vfC03Gen(rt *rapid.T) vfC03Case {
	c := vfC03Case{}
	var live, removed []uint32
	used := map[uint32]bool{}
	opGen := rapid.Custom(func(rt *rapid.T) vfTOp {
		w := rapid.IntRange(0, 99).Draw(rt, "opclass")
		switch {
		case w < 35 || len(live) == 0 && w < 60:
			id := vfGenFreshID(rt, used)
			live = append(live, id)
			return vfTOp{Op: "add", ID: id, Text: vfGenText(rt, "doc", 8)}
		case w < 45 && len(live) > 0:
			// replace the text of a live document
			return vfTOp{Op: "add", ID: live[rapid.IntRange(0, len(live)-1).Draw(rt, "replace_idx")], Text: vfGenText(rt, "doc", 8)}
		case w < 57:
			var id uint32
			switch r := rapid.IntRange(0, 9).Draw(rt, "rmclass"); {
			case r < 7 && len(live) > 0:
				j := rapid.IntRange(0, len(live)-1).Draw(rt, "rm_idx")
				id = live[j]
				live = append(live[:j:j], live[j+1:]...)
				removed = append(removed, id)
			case r < 9 && len(removed) > 0:
				id = removed[rapid.IntRange(0, len(removed)-1).Draw(rt, "rm_again")]
			default:
				id = uint32(rapid.IntRange(200000, 200005).Draw(rt, "rm_unknown"))
			}
			return vfTOp{Op: "remove", ID: id}
		case w < 64:
			return vfTOp{Op: "flush"}
		default:
			op := vfTOp{Op: "search"}
			nq := rapid.IntRange(1, 3).Draw(rt, "n_queries")
			if rapid.Bool().Draw(rt, "single") {
				nq = 1
			}
			for j := 0; j < nq; j++ {
				if j > 0 && rapid.IntRange(0, 2).Draw(rt, "repeat_query") == 0 {
					// the same string twice: each occurrence is a query of its own
					op.Qs = append(op.Qs, op.Qs[rapid.IntRange(0, j-1).Draw(rt, "repeat_of")])
					continue
				}
				op.Qs = append(op.Qs, vfGenText(rt, "query", 3))
			}
			op.K = vfGenK(rt, -2, len(live), 2)
			var known []uint32
			known = append(known, live...)
			known = append(known, removed...)
			op.IDs = vfGenIDSubset(rt, known)
			op.Agg = rapid.SampledFrom([]string{"", "sum", "max", "mean"}).Draw(rt, "agg")
			return op
		}
	})
	c.Ops = vfListOf(rt, "ops", opGen, 1, 50)
	c.Ops = append(c.Ops, vfTOp{Op: "search", Qs: []string{vfGenText(rt, "query_last", 3)}, K: rapid.IntRange(0, 3).Draw(rt, "k_last")})
	return c
}

// vfTextModel is the reference corpus: resident documents (live + removed since the last flush).
type vfTextModel struct {
	resident map[uint32][]string
	deleted  map[uint32]bool
}

func vfNewTextModel() *vfTextModel {
	return &vfTextModel{resident: map[uint32][]string{}, deleted: map[uint32]bool{}}
}

func (m *vfTextModel) flush() {
	for id := range m.deleted {
		delete(m.resident, id)
	}
	m.deleted = map[uint32]bool{}
}

func (m *vfTextModel) liveCount() int { return len(m.resident) - len(m.deleted) }

// scores returns the textbook BM25 score of every live matching document for one query.
func (m *vfTextModel) scores(query string, ids []uint32) map[uint32]float64 {
	var restrict map[uint32]bool
	if len(ids) > 0 {
		restrict = map[uint32]bool{}
		for _, id := range ids {
			restrict[id] = true
		}
	}
	N := float64(len(m.resident))
	total := 0
	for _, toks := range m.resident {
		total += len(toks)
	}
	out := map[uint32]float64{}
	if N == 0 {
		return out
	}
	avg := float64(total) / N
	for _, qt := range vfTokens(query) {
		df := 0.0
		for _, toks := range m.resident {
			for _, x := range toks {
				if x == qt {
					df++
					break
				}
			}
		}
		if df == 0 {
			continue
		}
		idf := math.Log((N-df+0.5)/(df+0.5) + 1)
		for id, toks := range m.resident {
			if m.deleted[id] || restrict != nil && !restrict[id] {
				continue
			}
			tf := 0.0
			for _, x := range toks {
				if x == qt {
					tf++
				}
			}
			if tf == 0 {
				continue
			}
			out[id] += idf * tf * (1.2 + 1) / (tf + 1.2*(1-0.75+0.75*float64(len(toks))/avg))
		}
	}
	return out
}

func vfTextTol(w float64) float64 { return math.Abs(w)/(1<<22) + 1e-12 }

// vfCheckTextSearch compares one executed text search with the model (shared with C05/C06/C07).
func vfCheckTextSearch(m *vfTextModel, hits []vfHit, qs []string, k int, ids []uint32, agg string) (v *vfViolation, ambiguous bool, nontrivial bool) {
	if len(qs) == 1 {
		sc := m.scores(qs[0], ids)
		var cands []vfCand
		for id, w := range sc {
			cands = append(cands, vfCand{ID: id, Want: w, Tol: vfTextTol(w)})
		}
		return vfCompareTopK(hits, cands, k, false), false, len(cands) >= 2 && (k > 0 && k < len(cands) || len(m.deleted) > 0)
	}
	perID := map[uint32][]float64{}
	for _, q := range qs {
		sc := m.scores(q, ids)
		type kv struct {
			id uint32
			s  float64
		}
		var l []kv
		for id, s := range sc {
			l = append(l, kv{id, s})
		}
		sort.Slice(l, func(a, b int) bool { return l[a].s > l[b].s })
		kk := len(l)
		if k > 0 && k < len(l) {
			kk = k
			if l[kk-1].s-l[kk].s <= 2*vfTextTol(l[kk].s) {
				ambiguous = true
			}
		}
		for _, e := range l[:kk] {
			perID[e.id] = append(perID[e.id], e.s)
		}
	}
	if ambiguous {
		// validity only: every hit is a live document matching at least one query
		union := map[uint32]bool{}
		for _, q := range qs {
			for id := range m.scores(q, ids) {
				union[id] = true
			}
		}
		seen := map[uint32]bool{}
		for i, h := range hits {
			if !union[h.ID] {
				return vfFail("id %d returned but it matches none of the queries (or is not live / eligible)", h.ID), true, false
			}
			if seen[h.ID] {
				return vfFail("id %d returned twice", h.ID), true, false
			}
			seen[h.ID] = true
			if i > 0 && hits[i-1].Score < h.Score {
				return vfFail("results not in descending order at %d", i), true, false
			}
		}
		if k > 0 && len(hits) > k {
			return vfFail("%d results for k=%d", len(hits), k), true, false
		}
		return nil, true, false
	}
	var cands []vfCand
	overlap := false
	for id, sc := range perID {
		var w float64
		switch agg {
		case "max":
			w = sc[0]
			for _, s := range sc[1:] {
				w = math.Max(w, s)
			}
		case "mean":
			for _, s := range sc {
				w += s
			}
			w /= float64(len(sc))
		default:
			for _, s := range sc {
				w += s
			}
		}
		if len(sc) > 1 {
			overlap = true
		}
		cands = append(cands, vfCand{ID: id, Want: w, Tol: 4 * vfTextTol(w) * float64(len(sc))})
	}
	return vfCompareTopK(hits, cands, k, false), false, overlap
}

func vfTextHits(res []TextResult) []vfHit {
	out := make([]vfHit, len(res))
	for i, r := range res {
		out[i] = vfHit{ID: r.GetId(), Score: r.GetScore()}
	}
	return out
}

func vfC03Run(c vfC03Case, ctx *vfCtx) *vfViolation {
	ctx.HistoryLen("history", len(c.Ops))
	ix := NewBM25SearchIndex()
	m := vfNewTextModel()
	replaced := false
	for i, op := range c.Ops {
		switch op.Op {
		case "add":
			if m.deleted[op.ID] || op.ID == 0 {
				continue // re-adding a removed id is C06's business
			}
			if _, ok := m.resident[op.ID]; ok {
				replaced = true
				ctx.Class("replace")
			}
			if err := ix.Add(op.ID, op.Text); err != nil {
				return vfFail("op %d: Add(%d, %q): %v", i, op.ID, op.Text, err)
			}
			m.resident[op.ID] = vfTokens(op.Text)
		case "remove":
			if err := ix.Remove(op.ID); err != nil {
				// the text index documents Remove of an unknown id as a no-op; an error is tolerated only then
				if _, ok := m.resident[op.ID]; ok && !m.deleted[op.ID] {
					return vfFail("op %d: Remove(%d) of a live document failed: %v", i, op.ID, err)
				}
			}
			if _, ok := m.resident[op.ID]; ok {
				m.deleted[op.ID] = true
			}
		case "flush":
			if err := ix.Flush(); err != nil {
				return vfFail("op %d: Flush: %v", i, err)
			}
			ctx.ClassIf(len(m.deleted) > 0, "flush_after_removal")
			m.flush()
		case "search":
			if len(op.Qs) == 0 {
				continue
			}
			s := ix.NewSearch().WithQuery(op.Qs...).WithK(op.K)
			if len(op.IDs) > 0 {
				s = s.WithDocumentIDs(op.IDs...)
			}
			if op.Agg != "" {
				s = s.WithScoreAggregation(ScoreAggregationKind(op.Agg))
			}
			res, err := s.Execute()
			if err != nil {
				return vfFail("op %d: search %q: %v", i, op.Qs, err)
			}
			v, amb, nt := vfCheckTextSearch(m, vfTextHits(res), op.Qs, op.K, op.IDs, op.Agg)
			if v != nil {
				v.Msg = fmt.Sprintf("op %d: search(%q, k=%d, ids=%v, agg=%q) over %d resident / %d live documents: %s", i, op.Qs, op.K, op.IDs, op.Agg, len(m.resident), m.liveCount(), v.Msg)
				return v
			}
			if nt || replaced && len(res) > 0 {
				ctx.NonTrivial()
			}
			ctx.ClassIf(amb, "multi_query_tie_at_truncation(validity only)")
			ctx.ClassIf(len(op.Qs) > 1, "multi_query")
			ctx.ClassIf(len(m.deleted) > 0, "search_with_unflushed_removal")
			ctx.ClassIf(len(res) > 0, "search_with_hits")
			ctx.Class("searches")
		}
	}
	return nil
}

func TestVerif_C03(t *testing.T) { vfCheck(t, "C03", vfC03Gen, vfC03Run) }
