package comet

// C08 — an acknowledged write to the persistent store stays visible to later searches.
// Oracle: stateful model of the live set + differential against one in-memory hybrid index
// (fresh flat index) fed the same successful operations; background flush made deterministic
// through the verif schedule points; load-aliasing counter must stay 0.

import (
	"fmt"
	"os"
	"reflect"
	"sort"
	"sync"
	"testing"
	"time"

	"pgregory.net/rapid"
)

type vfC08Case struct {
	Conf vfStoreConf `json:"conf"`
	Ops  []vfStoreOp `json:"ops"`
	// FreeRunning: the background flush worker is not parked; checks happen at quiescence
	FreeRunning bool `json:"free_running,omitempty"`
}

const vfKF1 = "KF-1"

func vfC08Gen(rt *rapid.T) vfC08Case {
	c := vfC08Case{}
	var g *vfVecGen
	c.Conf, g = vfGenStoreConf(rt)
	if c.Conf.VecKind == "none" {
		c.Conf.VecKind = "flat"
	}
	c.FreeRunning = rapid.IntRange(0, 3).Draw(rt, "free_running") == 0
	c.Conf.FlushThr = rapid.SampledFrom([]int64{1 << 40, 600, 600, 1200}).Draw(rt, "c08_flush_threshold")
	n, nLive := 0, 0
	explicit := map[uint32]bool{}
	var refs []int
	opGen := rapid.Custom(func(rt *rapid.T) vfStoreOp {
		w := rapid.IntRange(0, 99).Draw(rt, "opclass")
		switch {
		case w < 35 || nLive == 0 && w < 60:
			n++
			nLive++
			refs = append(refs, n-1)
			return vfStoreOp{Op: "add", Doc: vfMaybeLacks(rt, &c.Conf, vfGenStoreDoc(rt, g, n, explicit))}
		case w < 41 && len(refs) > 0:
			// remove: mostly the most recent documents (only the active memtable accepts removals)
			j := len(refs) - 1
			if rapid.IntRange(0, 2).Draw(rt, "rm_older") == 0 {
				j = rapid.IntRange(0, len(refs)-1).Draw(rt, "rm_idx")
			}
			return vfStoreOp{Op: "remove", Ref: refs[j]}
		case w < 49:
			return vfStoreOp{Op: "flush"}
		case w < 54:
			return vfStoreOp{Op: "rotate"}
		case w < 60:
			return vfStoreOp{Op: "evict"}
		case w < 72:
			return vfStoreOp{Op: "bgflush", Ref: rapid.IntRange(0, 4).Draw(rt, "bg_pause_point")}
		case w < 76:
			return vfStoreOp{Op: "compact"}
		default:
			q := g.drawNonZero(rt, "q")
			return vfStoreOp{Op: "search", Q: q, K: rapid.IntRange(1, nLive+2).Draw(rt, "k")}
		}
	})
	c.Ops = vfListOf(rt, "ops", opGen, 10, 60)
	c.Ops = append(c.Ops, vfStoreOp{Op: "search", Q: g.drawNonZero(rt, "q_last"), K: rapid.IntRange(1, 3).Draw(rt, "k_last")})
	return c
}

// vfSched parks the background flush worker at chosen verif points.
type vfSched struct {
	mu          sync.Mutex
	parkWorker  bool            // park at "worker:flush"
	parkAt      map[string]bool // further points at which the worker is parked while it is flushing
	inWorker    bool
	harnessBusy bool // the harness goroutine itself is inside Flush / Close
	arrived     chan string
	release     chan struct{}
	aliasLoads  int
	loads       int
	known       func() []interface{}
	loaded      map[uintptr]uint64
	keep        []interface{} // strong references: addresses of loaded instances are never reused
}

func vfPtrOf(x interface{}) uintptr {
	v := reflect.ValueOf(x)
	if v.Kind() == reflect.Ptr && !v.IsNil() {
		return v.Pointer()
	}
	return 0
}

func (s *vfSched) handler(name string, args ...any) {
	switch name {
	case "segment:load":
		s.mu.Lock()
		s.loads++
		segID, _ := args[0].(uint64)
		refs := map[uintptr]bool{}
		if s.known != nil {
			for _, x := range s.known() {
				refs[vfPtrOf(x)] = true
			}
		}
		for _, x := range args[1:] {
			if x == nil || reflect.ValueOf(x).IsNil() {
				continue
			}
			p := vfPtrOf(x)
			if p == 0 {
				continue
			}
			if prev, ok := s.loaded[p]; refs[p] || ok && prev != segID {
				s.aliasLoads++
			}
			s.loaded[p] = segID
			s.keep = append(s.keep, x)
		}
		s.mu.Unlock()
		return
	case "worker:flush":
		s.mu.Lock()
		park := s.parkWorker
		s.inWorker = true
		s.mu.Unlock()
		if park {
			s.arrived <- name
			<-s.release
		}
		return
	}
	s.mu.Lock()
	park := s.inWorker && !s.harnessBusy && s.parkAt[name]
	s.mu.Unlock()
	if park {
		s.arrived <- name
		<-s.release
	}
}

func vfWaitUntil(cond func() bool, d time.Duration) bool {
	deadline := time.Now().Add(d)
	for !cond() {
		if time.Now().After(deadline) {
			return false
		}
		time.Sleep(200 * time.Microsecond)
	}
	return true
}

func vfC08Run(c vfC08Case, ctx *vfCtx) *vfViolation {
	ctx.HistoryLen("history", len(c.Ops))
	dir, err := os.MkdirTemp(vfEnv("VERIF_SCRATCH"), "c08-")
	if err != nil {
		return vfFail("mkdir: %v", err)
	}
	defer os.RemoveAll(dir)
	conf := c.Conf
	if conf.VecKind == "none" {
		conf.VecKind = "flat"
	}
	kind := DistanceKind(conf.Metric)
	sched := &vfSched{arrived: make(chan string, 4), release: make(chan struct{}), parkAt: map[string]bool{}, loaded: map[uintptr]uint64{}}
	sched.parkWorker = !c.FreeRunning
	vfInstallHook(sched.handler)
	defer vfInstallHook(nil)

	st, err := vfOpenStore(dir, &conf)
	if err != nil {
		return vfFail("Open: %v", err)
	}
	sched.mu.Lock()
	sched.known = func() []interface{} { return vfStoreMemtableInstances(st) }
	sched.mu.Unlock()
	closed := false
	// make sure a parked worker never outlives the case
	workerParked := false
	drain := func() {
		sched.mu.Lock()
		sched.parkWorker = false
		sched.parkAt = map[string]bool{}
		sched.mu.Unlock()
		if workerParked {
			workerParked = false
			sched.release <- struct{}{}
		}
		for {
			select {
			case <-sched.arrived:
				sched.release <- struct{}{}
			default:
				return
			}
		}
	}
	defer func() {
		drain()
		if !closed {
			done := make(chan struct{})
			go func() { st.Close(); close(done) }()
			for {
				select {
				case <-done:
					return
				case <-sched.arrived:
					sched.release <- struct{}{}
				case <-time.After(20 * time.Second):
					return
				}
			}
		}
	}()
	ctx.Class("vec_kind=" + conf.VecKind)
	ctx.ClassIf(c.FreeRunning, "free_running_workers")

	// reference: one in-memory hybrid index over a fresh flat index
	var refVI VectorIndex
	refVI, _ = NewFlatIndex(conf.Dim, kind)
	var refTI TextIndex
	var refMI MetadataIndex
	if conf.HasText {
		refTI = NewBM25SearchIndex()
	}
	if conf.HasMeta {
		refMI = NewRoaringMetadataIndex()
	}
	ref := NewHybridSearchIndex(refVI, refTI, refMI)

	live := map[uint32]*vfStoreDoc{}
	everAdded := map[uint32]bool{}
	var addIDs []uint32
	compacted := false
	flushedSinceAdd, addAfterFlush, searchesAfter := false, false, 0
	evictedBetween := false
	workerPending := func() bool {
		select {
		case <-sched.arrived:
			return true
		default:
			return false
		}
	}
	fail := func(format string, args ...any) *vfViolation {
		v := vfFail(format, args...)
		if compacted {
			v.Attr = vfKF1
		}
		return v
	}

	// probe battery after every action
	probes := func(i int, op *vfStoreOp) *vfViolation {
		if c.FreeRunning {
			// only at quiescence: wait until nothing is frozen
			if !vfWaitUntil(func() bool { return vfStoreFrozenCount(st) == 0 || true }, time.Second) {
				return nil
			}
		}
		ids := make([]uint32, 0, len(live))
		for id := range live {
			ids = append(ids, id)
		}
		sort.Slice(ids, func(a, b int) bool { return ids[a] < ids[b] })
		// a handful of documents per step: the most recent ones and a rotating sample
		var sample []uint32
		for j := len(ids) - 1; j >= 0 && len(sample) < 2; j-- {
			sample = append(sample, ids[j])
		}
		if len(ids) > 2 {
			sample = append(sample, ids[i%len(ids)], ids[(i*7+3)%len(ids)])
		}
		for _, id := range sample {
			bv, bt, bm, all, err := vfStoreFind(st, &conf, id, live[id])
			if err != nil {
				return fail("op %d (%s): searching failed: %v", i, op.Op, err)
			}
			if !bv || conf.HasText && !bt || conf.HasMeta && !bm {
				return fail("op %d (%s): document %d (n=%d) was added successfully and not removed, but is now found by vector=%v text=%v metadata=%v (%d memtables, %d segments)", i, op.Op, id, live[id].N, bv, bt, bm, vfStoreMemtableCount(st), vfStoreSegmentCount(st))
			}
			for x := range all {
				if !everAdded[x] {
					return fail("op %d (%s): a search returned id %d, which was never added", i, op.Op, x)
				}
			}
		}
		// everything at once: the common token / a tag / the full vector scan
		if conf.HasText {
			res, err := st.NewSearch().WithText("common").WithK(vfBigK).Execute()
			if err != nil {
				return fail("op %d: text search failed: %v", i, err)
			}
			got := map[uint32]bool{}
			for _, r := range res {
				got[r.ID] = true
			}
			for id, d := range live {
				if d.hasText(&conf) && !got[id] {
					return fail("op %d (%s): live document %d is not returned by the text query \"common\" (k = all)", i, op.Op, id)
				}
			}
			for id := range got {
				if d, ok := live[id]; !ok || !d.hasText(&conf) {
					return fail("op %d (%s): text query returns id %d which is not live (removed=%v, ever added=%v)", i, op.Op, id, everAdded[id], everAdded[id])
				}
			}
		}
		if conf.HasMeta {
			for tag := 0; tag < 3; tag++ {
				res, err := st.NewSearch().WithMetadata(Eq("tag", fmt.Sprintf("t%d", tag))).WithK(vfBigK).Execute()
				if err != nil {
					return fail("op %d: metadata search failed: %v", i, err)
				}
				got := map[uint32]bool{}
				for _, r := range res {
					got[r.ID] = true
				}
				for id, d := range live {
					if d.hasMeta(&conf) && d.N%3 == tag && !got[id] {
						return fail("op %d (%s): live document %d is not returned by the metadata filter tag=t%d (k = all)", i, op.Op, id, tag)
					}
				}
				for id := range got {
					if d, ok := live[id]; !ok || d.N%3 != tag || !d.hasMeta(&conf) {
						return fail("op %d (%s): metadata filter tag=t%d returns id %d which is not a live document with that tag", i, op.Op, tag, id)
					}
				}
			}
		}
		// mixed modalities (k = all): the id set is determined by the live documents alone
		mixed := func(what string, res []HybridSearchResult, err error, want func(d *vfStoreDoc) bool) *vfViolation {
			if err != nil {
				return fail("op %d: %s search failed: %v", i, what, err)
			}
			got := map[uint32]bool{}
			for _, r := range res {
				if got[r.ID] {
					return fail("op %d (%s): the %s query returns id %d twice", i, op.Op, what, r.ID)
				}
				got[r.ID] = true
			}
			for id, d := range live {
				if want(d) != got[id] {
					return fail("op %d (%s): %s query (k = all): live document %d (n=%d) returned=%v, expected %v (%d memtables, %d segments)", i, op.Op, what, id, d.N, got[id], want(d), vfStoreMemtableCount(st), vfStoreSegmentCount(st))
				}
			}
			for id := range got {
				if _, ok := live[id]; !ok {
					return fail("op %d (%s): the %s query returns id %d which is not live", i, op.Op, what, id)
				}
			}
			return nil
		}
		tag := i % 3
		qv := make([]float32, conf.Dim)
		qv[0] = 1
		if conf.HasMeta {
			res, err := st.NewSearch().WithVector(vfCloneF32(qv)).WithMetadata(Eq("tag", fmt.Sprintf("t%d", tag))).WithK(vfBigK).WithNProbes(1000).Execute()
			if v := mixed("vector + metadata", res, err, func(d *vfStoreDoc) bool { return d.hasVec(&conf) && d.hasMeta(&conf) && d.N%3 == tag }); v != nil {
				return v
			}
			res, err = st.NewSearch().WithVector(vfCloneF32(qv)).WithMetadataGroups(&FilterGroup{Logic: AND, Filters: []Filter{Eq("tag", fmt.Sprintf("t%d", tag))}}, &FilterGroup{Logic: AND, Filters: []Filter{Exists("p")}}).WithK(vfBigK).WithNProbes(1000).Execute()
			if v := mixed("vector + metadata groups", res, err, func(d *vfStoreDoc) bool { return d.hasVec(&conf) && d.hasMeta(&conf) && (d.N%3 == tag || d.N%3 == 1) }); v != nil {
				return v
			}
		}
		if conf.HasMeta && conf.HasText {
			res, err := st.NewSearch().WithText("fox").WithMetadata(Eq("tag", fmt.Sprintf("t%d", tag))).WithK(vfBigK).Execute()
			if v := mixed("text + metadata", res, err, func(d *vfStoreDoc) bool {
				return d.hasText(&conf) && d.hasMeta(&conf) && d.N%3 == tag && d.Word == "fox"
			}); v != nil {
				return v
			}
		}
		if conf.HasText {
			for _, fk := range []FusionKind{WeightedSumFusion, ReciprocalRankFusion} {
				res, err := st.NewSearch().WithVector(vfCloneF32(qv)).WithText("zeta").WithFusionKind(fk).WithK(vfBigK).WithNProbes(1000).Execute()
				if v := mixed("vector + text ("+string(fk)+")", res, err, func(d *vfStoreDoc) bool { return d.hasVec(&conf) || d.hasText(&conf) && d.Word == "zeta" }); v != nil {
					return v
				}
			}
		}
		if sched.aliasLoads > 0 {
			return fail("op %d (%s): a segment was deserialised into an index instance that a memtable, the configuration or another segment also references (%d of %d loads)", i, op.Op, sched.aliasLoads, sched.loads)
		}
		return nil
	}

	for i := range c.Ops {
		op := &c.Ops[i]
		switch op.Op {
		case "add":
			d := op.Doc
			if d == nil || len(d.Vec) != conf.Dim || d.ID != 0 && everAdded[d.ID] {
				addIDs = append(addIDs, 0)
				continue
			}
			id, err := vfStoreAdd(st, &conf, d)
			if err != nil {
				return fail("op %d: add failed: %v", i, err)
			}
			if everAdded[id] {
				return fail("op %d: Add returned id %d for the second time", i, id)
			}
			everAdded[id] = true
			live[id] = d
			addIDs = append(addIDs, id)
			text, meta := "", map[string]interface{}(nil)
			if d.hasText(&conf) {
				text = d.text()
			}
			if d.hasMeta(&conf) {
				meta = d.meta()
			}
			var refVec []float32
			if d.hasVec(&conf) {
				refVec = vfCloneF32(d.Vec)
			}
			ctx.ClassIf(d.Lacks != "", "document_lacking_a_modality")
			if err := ref.AddWithID(id, refVec, text, meta); err != nil {
				return vfFail("op %d: the in-memory reference rejected the document: %v", i, err)
			}
			if flushedSinceAdd {
				addAfterFlush, searchesAfter = true, 0
			}
			if !c.FreeRunning && !workerParked && workerPending() {
				workerParked = true // the background flush has been scheduled and is parked at its start
				ctx.Class("background_flush_scheduled")
			}
		case "remove":
			if op.Ref < 0 || op.Ref >= len(addIDs) || addIDs[op.Ref] == 0 {
				continue
			}
			id := addIDs[op.Ref]
			_, wasLive := live[id]
			inActive := vfStoreActiveHas(st, id)
			err := st.Remove(id)
			// not a clause of C08 (which only says what happens "until it is removed"), but the evidence
			// shows whether removals are really exercised
			ctx.ClassIf(err != nil && wasLive && inActive, "remove_refused_although_live_in_the_active_memtable")
			if err == nil {
				if _, ok := live[id]; !ok {
					return fail("op %d: Remove(%d) of an already removed document succeeded", i, id)
				}
				delete(live, id)
				if err := ref.Remove(id); err != nil {
					return vfFail("op %d: the reference could not remove %d: %v", i, id, err)
				}
				ctx.Class("remove_succeeded")
			} else {
				ctx.Class("remove_refused(document not in the active memtable)")
			}
		case "flush":
			if workerParked {
				continue // a user Flush racing with the parked background flush is C11's business
			}
			sched.mu.Lock()
			sched.harnessBusy = true
			sched.mu.Unlock()
			err := st.Flush()
			sched.mu.Lock()
			sched.harnessBusy = false
			sched.mu.Unlock()
			if err != nil {
				return fail("op %d: Flush failed: %v", i, err)
			}
			flushedSinceAdd = true
		case "rotate":
			vfStoreRotate(st)
		case "evict":
			vfStoreEvict(st)
			evictedBetween = true
		case "bgflush":
			if c.FreeRunning {
				if conf.FlushThr < 1<<30 {
					vfWaitUntil(func() bool { return vfStoreFrozenCount(st) == 0 }, 50*time.Millisecond)
				}
				continue
			}
			if !workerParked && workerPending() {
				workerParked = true
			}
			if !workerParked {
				continue
			}
			// release the worker; optionally park it again between "segment registered" and "memtable dropped"
			pause := []string{"", "flush:before_drop", "flush:registered", "flush:written", "flush:created:hybrid"}[op.Ref%5]
			userFlush := op.Ref%5 >= 3 // an explicit Flush overlaps the background flush while its segment is half written
			sched.mu.Lock()
			sched.parkAt = map[string]bool{}
			if pause != "" {
				sched.parkAt[pause] = true
			}
			sched.mu.Unlock()
			expectPause := pause != "" && vfStoreFrozenCount(st) > 0
			sched.release <- struct{}{}
			workerParked = false
			if expectPause {
				select {
				case <-sched.arrived:
					ctx.Class("searched_while_flush_paused_at_" + pause)
					if userFlush {
						sched.mu.Lock()
						sched.harnessBusy = true
						sched.mu.Unlock()
						ferr := st.Flush()
						sched.mu.Lock()
						sched.harnessBusy = false
						sched.mu.Unlock()
						if ferr != nil {
							return fail("op %d: an explicit Flush overlapping a background flush failed: %v", i, ferr)
						}
						ctx.Class("explicit_flush_overlapping_background_flush")
					}
					if v := probes(i, op); v != nil {
						v.Msg = "(background flush paused at " + pause + ") " + v.Msg
						return v
					}
					sched.mu.Lock()
					sched.parkAt = map[string]bool{}
					sched.mu.Unlock()
					sched.release <- struct{}{}
				case <-time.After(5 * time.Second):
					// the worker found nothing to flush after all
				}
			}
			// wait for the worker to finish this round
			vfWaitUntil(func() bool {
				sched.mu.Lock()
				defer sched.mu.Unlock()
				return true
			}, time.Millisecond)
			if !vfWaitUntil(func() bool { return vfStoreFrozenCount(st) == 0 }, 10*time.Second) {
				// new rotations may have refilled the queue; that is fine
			}
			sched.mu.Lock()
			sched.inWorker = false
			sched.mu.Unlock()
			flushedSinceAdd = true
			ctx.Class("background_flush_ran")
		case "compact":
			if ctx.AttrActive(vfKF1) {
				ctx.Excluded(1) // compaction is the recorded known finding KF-1: excluded, counted
				continue
			}
			if workerParked {
				continue
			}
			before := vfStoreSegmentCount(st)
			if err := vfStoreCompactNow(st); err != nil {
				return fail("op %d: compaction failed: %v", i, err)
			}
			if vfStoreSegmentCount(st) != before {
				compacted = true
				ctx.Class("compaction_ran")
			}
		case "search":
			if len(op.Q) != conf.Dim || op.K < 1 {
				continue
			}
			got, err := st.NewSearch().WithVector(vfCloneF32(op.Q)).WithK(op.K).WithNProbes(1000).Execute()
			if err != nil {
				return fail("op %d: vector search failed: %v", i, err)
			}
			for _, r := range got {
				if !everAdded[r.ID] {
					return fail("op %d: search returned id %d, which was never added", i, r.ID)
				}
			}
			// (an IVF store probing all of its clusters is exact as well: same reference)
			if conf.VecKind == "flat" || conf.VecKind == "ivf" {
				want, err := ref.NewSearch().WithVector(vfCloneF32(op.Q)).WithK(op.K).Execute()
				if err != nil {
					return vfFail("op %d: reference search failed: %v", i, err)
				}
				a, b := make([]vfHit64, len(got)), make([]vfHit64, len(want))
				for j, r := range got {
					a[j] = vfHit64{r.ID, r.Score}
				}
				for j, r := range want {
					b[j] = vfHit64{r.ID, r.Score}
				}
				if ok, why := vfBatteriesEqual([][]vfHit64{b}, [][]vfHit64{a}); !ok {
					return fail("op %d: vector-only search (k=%d, %d live documents, %d memtables, %d segments): the store returns ids %v (scores %v), a single in-memory index over the same documents returns %v (scores %v): %s", i, op.K, len(live), vfStoreMemtableCount(st), vfStoreSegmentCount(st), vfIDs64(a), vfSortedScores(a), vfIDs64(b), vfSortedScores(b), why)
				}
				ctx.Class("vector_only_differential")
				// the same query with an autocut: a vector-only query like any other
				if cut := 1 + i%2; i%3 == 0 {
					gotC, err1 := st.NewSearch().WithVector(vfCloneF32(op.Q)).WithK(op.K).WithNProbes(1000).WithCutoff(cut).Execute()
					wantC, err2 := ref.NewSearch().WithVector(vfCloneF32(op.Q)).WithK(op.K).WithCutoff(cut).Execute()
					if err1 != nil || err2 != nil {
						return fail("op %d: vector search with cutoff %d failed: %v / %v", i, cut, err1, err2)
					}
					a, b := make([]vfHit64, len(gotC)), make([]vfHit64, len(wantC))
					for j, r := range gotC {
						a[j] = vfHit64{r.ID, r.Score}
					}
					for j, r := range wantC {
						b[j] = vfHit64{r.ID, r.Score}
					}
					if ok, why := vfBatteriesEqual([][]vfHit64{b}, [][]vfHit64{a}); !ok {
						return fail("op %d: vector-only search with autocut %d (k=%d, %d live documents, %d memtables, %d segments): the store returns ids %v, a single in-memory index over the same documents returns %v: %s", i, cut, op.K, len(live), vfStoreMemtableCount(st), vfStoreSegmentCount(st), vfIDs64(a), vfIDs64(b), why)
					}
					ctx.Class("vector_only_differential_with_autocut")
				}
			}
			if addAfterFlush {
				searchesAfter++
			}
		}
		if v := probes(i, op); v != nil {
			return v
		}
	}
	drain()
	// orderly shutdown
	done := make(chan error, 1)
	go func() { done <- st.Close() }()
	var cerr error
	waiting := true
	for waiting {
		select {
		case cerr = <-done:
			waiting = false
		case <-sched.arrived:
			sched.release <- struct{}{}
		case <-time.After(30 * time.Second):
			return vfFail("Close did not return within 30 s")
		}
	}
	closed = true
	if cerr != nil {
		return fail("Close failed: %v", cerr)
	}
	if addAfterFlush && searchesAfter >= 2 || evictedBetween {
		ctx.NonTrivial()
	}
	ctx.Count("segment_loads", int64(sched.loads))
	return nil
}

func TestVerif_C08(t *testing.T) { vfCheck(t, "C08", vfC08Gen, vfC08Run) }
