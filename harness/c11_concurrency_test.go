package comet

// C11 — indexes and store are race-free and visibility-linearizable under concurrency.
// Generated concurrent workloads (goroutines own disjoint id ranges) run under the Go race
// detector; oracle: race log silent, no panic / hang, per-owner deterministic outcomes,
// timestamped visibility, unique auto ids, post-quiescence state == model; plus a directed
// schedule at the verif yield point of the store's write path.

import (
	"fmt"
	"io"
	"os"
	"path/filepath"
	"runtime"
	"sort"
	"strings"
	"sync"
	"sync/atomic"
	"testing"
	"time"

	"pgregory.net/rapid"
)

type vfCOp struct {
	Op string    `json:"op"` // add | add_auto | remove | search | flush | write | rotate_noop
	N  int       `json:"n"`  // ordinal of the goroutine's own document
	Q  []float32 `json:"q,omitempty"`
	// search: a text search carrying several queries (bm25 / hybrid / store targets)
	Multi bool `json:"multi,omitempty"`
	// search restricted to these documents of the issuing goroutine (ordinals; 0 = an id nobody ever
	// adds): the id restriction goes through the pooled document filter (vector kinds, bm25)
	Only []int `json:"only,omitempty"`
	// search through a numeric metadata filter that every document satisfies (metadata / hybrid / store)
	Meta bool `json:"meta,omitempty"`
	// vector search with a non-default score aggregation ("" | max | mean): the aggregators are
	// process-wide objects shared by every search
	Agg string `json:"agg,omitempty"`
}

type vfC11Case struct {
	Target   string      `json:"target"` // flat | hnsw | ivf | pq | ivfpq | bm25 | metadata | hybrid | store
	Metric   string      `json:"metric"`
	Dim      int         `json:"dim"`
	Train    [][]float32 `json:"train,omitempty"`
	Progs    [][]vfCOp   `json:"progs"`
	Vecs     [][]float32 `json:"vecs"` // document vectors, indexed by (goroutine*64 + n) % len
	Conf     vfStoreConf `json:"conf"`
	Directed bool        `json:"directed,omitempty"` // store: force the window between choosing the memtable and writing to it
	// which yield point the directed schedule parks the first arrival at ("" = memq:before_write):
	// memq:before_write (an add that has chosen its memtable) | remove:before_remove (a Remove that has)
	DirectedAt string `json:"directed_at,omitempty"`
}

var vfC11Targets = []string{"store", "store_close", "ids", "filter_pool", "store_flush_search", "hybrid", "bm25", "store", "metadata", "flat", "hnsw", "ivf", "pq", "ivfpq"}

func vfC11Gen(rt *rapid.T) vfC11Case {
	c := vfC11Case{}
	c.Target = rapid.SampledFrom(vfC11Targets).Draw(rt, "target")
	c.Metric = string(rapid.SampledFrom(vfMetrics).Draw(rt, "metric"))
	c.Dim = 2 * rapid.IntRange(1, 2).Draw(rt, "half_dim")
	g := vfNewVecGen(rt, c.Dim)
	switch c.Target {
	case "ivf", "pq", "ivfpq":
		c.Train = vfGenTrainingSet(rt, g, 24, 30, DistanceKind(c.Metric) == Cosine)
	}
	for i := 0; i < 24; i++ {
		c.Vecs = append(c.Vecs, g.drawNonZero(rt, "vec"))
	}
	G := rapid.IntRange(2, 16).Draw(rt, "goroutines")
	if rapid.Bool().Draw(rt, "few_goroutines") {
		G = rapid.IntRange(2, 5).Draw(rt, "goroutines_few")
	}
	for gi := 0; gi < G; gi++ {
		next, liveN := 0, []int{}
		var removed []int
		opGen := rapid.Custom(func(rt *rapid.T) vfCOp {
			w := rapid.IntRange(0, 99).Draw(rt, "opclass")
			switch {
			case w < 40 || len(liveN) == 0 && w < 55:
				next++
				liveN = append(liveN, next)
				if (c.Target == "hybrid" || c.Target == "store") && rapid.IntRange(0, 3).Draw(rt, "auto_id") == 0 {
					return vfCOp{Op: "add_auto", N: next}
				}
				return vfCOp{Op: "add", N: next}
			case w < 55 && len(liveN) > 0:
				j := rapid.IntRange(0, len(liveN)-1).Draw(rt, "rm_idx")
				n := liveN[j]
				liveN = append(liveN[:j:j], liveN[j+1:]...)
				removed = append(removed, n)
				return vfCOp{Op: "remove", N: n}
			case w < 58 && len(removed) > 0:
				return vfCOp{Op: "remove", N: removed[rapid.IntRange(0, len(removed)-1).Draw(rt, "rm_again")]}
			case w < 80:
				op := vfCOp{Op: "search", Q: g.drawNonZero(rt, "q"), Multi: rapid.IntRange(0, 2).Draw(rt, "multi_query") == 0}
				if rapid.IntRange(0, 3).Draw(rt, "aggregation") == 0 {
					op.Multi = false
					op.Agg = rapid.SampledFrom([]string{"mean", "max", "mean"}).Draw(rt, "agg")
					return op
				}
				if rapid.IntRange(0, 3).Draw(rt, "by_metadata") == 0 {
					op.Multi, op.Meta = false, true
					return op
				}
				if rapid.IntRange(0, 2).Draw(rt, "restricted") == 0 {
					op.Multi = false
					switch rapid.IntRange(0, 3).Draw(rt, "restriction") {
					case 0:
						op.Only = []int{0} // matches nothing
					default:
						op.Only = append(op.Only, 0)
						for _, n := range liveN {
							if rapid.Bool().Draw(rt, "only_this") {
								op.Only = append(op.Only, n)
							}
						}
						for _, n := range removed {
							if rapid.IntRange(0, 3).Draw(rt, "only_removed") == 0 {
								op.Only = append(op.Only, n)
							}
						}
					}
				}
				return op
			case w < 90:
				return vfCOp{Op: "flush"}
			default:
				return vfCOp{Op: "write"}
			}
		})
		c.Progs = append(c.Progs, vfListOf(rt, "prog", opGen, 3, 30))
	}
	c.Conf = vfStoreConf{VecKind: "flat", Metric: c.Metric, Dim: c.Dim, HasText: true, HasMeta: true, CompThr: 4}
	c.Conf.MemLimit = rapid.SampledFrom([]int64{1, 400, 900, 3000}).Draw(rt, "memtable_limit")
	c.Conf.FlushThr = rapid.SampledFrom([]int64{600, 1500, 1 << 40}).Draw(rt, "flush_threshold")
	c.Directed = (c.Target == "store" || c.Target == "store_close") && rapid.IntRange(0, 2).Draw(rt, "directed") == 0
	if c.Directed && c.Target == "store" {
		c.DirectedAt = rapid.SampledFrom([]string{"memq:before_write", "remove:before_remove"}).Draw(rt, "directed_at")
	}
	return c
}

type vfStamped struct {
	g          int
	op         vfCOp
	start, end int64
	err        error
	ids        []uint32 // search result
	id         uint32   // the id the op worked on (add / remove)
	overlap    bool
	only       map[uint32]bool // id restriction of a search (nil: none)
}

// vfConcTarget abstracts the nine targets for the workload runner.
type vfConcTarget struct {
	name    string
	add     func(id uint32, vec []float32) error
	addAuto func(vec []float32) (uint32, error)
	remove  func(id uint32) error
	search  func(q []float32) ([]uint32, error)
	// searchMulti: a text search with several queries, every document matches one of them
	searchMulti func() ([]uint32, error)
	// searchOnly: the search restricted to the given ids (nil where the target has no id restriction)
	searchOnly func(q []float32, ids []uint32) ([]uint32, error)
	// searchMeta: a numeric range filter (bit-sliced index) that every document satisfies
	searchMeta func() ([]uint32, error)
	// searchAgg: the plain search with another score aggregation (same id set)
	searchAgg func(q []float32, agg string) ([]uint32, error)
	flush     func() error
	write     func() error
	exact     bool // a k=all search must contain every document that is visible
	// resident reports the ids the index physically holds (nil where there is no accessor): used at
	// quiescence for the approximate kind, whose searches cannot prove that nothing was lost
	resident func() map[uint32]bool
	// store only
	store           *PersistentHybridIndex
	removeMayRefuse bool
}

func vfDocText(id uint32) string { return fmt.Sprintf("tok%d common", id) }

func vfBuildConcTarget(c *vfC11Case, dir string) (*vfConcTarget, error) {
	kind := DistanceKind(c.Metric)
	t := &vfConcTarget{name: c.Target, exact: true}
	switch c.Target {
	case "flat", "hnsw", "ivf", "pq", "ivfpq":
		cc := vfC02Case{Kind: c.Target, Metric: c.Metric, Dim: c.Dim, M: 16, EfC: 100, EfS: 600, NList: 3, NBits: 2, Train: c.Train}
		if c.Target == "pq" || c.Target == "ivfpq" {
			cc.M, cc.NList = 2, 2
		}
		ut, err := vfBuildIndex(&cc)
		if err != nil {
			return nil, err
		}
		idx := ut.idx
		t.exact = c.Target != "hnsw"
		if hn, ok := idx.(*HNSWIndex); ok {
			t.resident = func() map[uint32]bool {
				snap := vfHNSWSnapOf(hn)
				out := map[uint32]bool{}
				for id := range snap.Adj0 {
					if !snap.Deleted[id] {
						out[id] = true
					}
				}
				return out
			}
		}
		t.add = func(id uint32, vec []float32) error { return idx.Add(*NewVectorNodeWithID(id, vfCloneF32(vec))) }
		t.remove = func(id uint32) error { return idx.Remove(*NewVectorNodeWithID(id, nil)) }
		t.search = func(q []float32) ([]uint32, error) {
			res, err := idx.NewSearch().WithQuery(vfCloneF32(q)).WithK(0).WithNProbes(0).Execute()
			ids := make([]uint32, len(res))
			for i, r := range res {
				ids[i] = r.GetId()
			}
			return ids, err
		}
		t.searchAgg = func(q []float32, agg string) ([]uint32, error) {
			res, err := idx.NewSearch().WithQuery(vfCloneF32(q), vfCloneF32(q)).WithK(0).WithNProbes(0).WithScoreAggregation(ScoreAggregationKind(agg)).Execute()
			ids := make([]uint32, len(res))
			for i, r := range res {
				ids[i] = r.GetId()
			}
			return ids, err
		}
		t.searchOnly = func(q []float32, only []uint32) ([]uint32, error) {
			res, err := idx.NewSearch().WithQuery(vfCloneF32(q)).WithK(0).WithNProbes(0).WithDocumentIDs(only...).Execute()
			ids := make([]uint32, len(res))
			for i, r := range res {
				ids[i] = r.GetId()
			}
			return ids, err
		}
		t.flush = idx.Flush
		t.write = func() error { _, err := idx.WriteTo(io.Discard); return err }
	case "bm25":
		ix := NewBM25SearchIndex()
		t.add = func(id uint32, vec []float32) error { return ix.Add(id, vfDocText(id)) }
		t.remove = func(id uint32) error { return ix.Remove(id) }
		t.search = func(q []float32) ([]uint32, error) {
			res, err := ix.NewSearch().WithQuery("common").WithK(0).Execute()
			ids := make([]uint32, len(res))
			for i, r := range res {
				ids[i] = r.GetId()
			}
			return ids, err
		}
		t.searchOnly = func(q []float32, only []uint32) ([]uint32, error) {
			res, err := ix.NewSearch().WithQuery("common").WithK(0).WithDocumentIDs(only...).Execute()
			ids := make([]uint32, len(res))
			for i, r := range res {
				ids[i] = r.GetId()
			}
			return ids, err
		}
		t.searchMulti = func() ([]uint32, error) {
			res, err := ix.NewSearch().WithQuery("common", "auto", "tok1073741825").WithK(0).Execute()
			ids := make([]uint32, len(res))
			for i, r := range res {
				ids[i] = r.GetId()
			}
			return ids, err
		}
		t.flush = ix.Flush
		t.write = func() error { _, err := ix.WriteTo(io.Discard); return err }
	case "metadata":
		mi := NewRoaringMetadataIndex()
		t.add = func(id uint32, vec []float32) error {
			return mi.Add(*NewMetadataNodeWithID(id, map[string]interface{}{"n": int(id % 1000), "tag": "t"}))
		}
		t.remove = func(id uint32) error { return mi.Remove(*NewMetadataNodeWithID(id, nil)) }
		var flip atomic.Uint32
		t.search = func(q []float32) ([]uint32, error) {
			if flip.Add(1)%2 == 0 {
				// the unfiltered search ("all documents") reads the index's own document set
				res, err := mi.NewSearch().Execute()
				return vfMetaIDs(res), err
			}
			res, err := mi.NewSearch().WithFilters(Eq("tag", "t")).Execute()
			return vfMetaIDs(res), err
		}
		t.searchMeta = func() ([]uint32, error) {
			res, err := mi.NewSearch().WithFilters(Range("n", 0, 999), Not(Lt("n", 0))).Execute()
			return vfMetaIDs(res), err
		}
		t.flush = mi.Flush
		t.write = func() error { _, err := mi.WriteTo(io.Discard); return err }
	case "hybrid":
		vi, err := NewFlatIndex(c.Dim, kind)
		if err != nil {
			return nil, err
		}
		h := NewHybridSearchIndex(vi, NewBM25SearchIndex(), NewRoaringMetadataIndex())
		t.add = func(id uint32, vec []float32) error {
			return h.AddWithID(id, vfCloneF32(vec), vfDocText(id), map[string]interface{}{"n": int(id % 1000)})
		}
		t.addAuto = func(vec []float32) (uint32, error) {
			return h.Add(vfCloneF32(vec), "auto common", map[string]interface{}{"n": 1})
		}
		t.remove = h.Remove
		t.search = func(q []float32) ([]uint32, error) {
			res, err := h.NewSearch().WithVector(vfCloneF32(q)).WithK(vfBigK).Execute()
			ids := make([]uint32, len(res))
			for i, r := range res {
				ids[i] = r.ID
			}
			return ids, err
		}
		t.searchAgg = func(q []float32, agg string) ([]uint32, error) {
			res, err := h.NewSearch().WithVector(vfCloneF32(q)).WithScoreAggregation(ScoreAggregationKind(agg)).WithK(vfBigK).Execute()
			ids := make([]uint32, len(res))
			for i, r := range res {
				ids[i] = r.ID
			}
			return ids, err
		}
		t.searchMeta = func() ([]uint32, error) {
			res, err := h.NewSearch().WithMetadata(Range("n", 0, 999)).WithK(vfBigK).Execute()
			ids := make([]uint32, len(res))
			for i, r := range res {
				ids[i] = r.ID
			}
			return ids, err
		}
		t.searchMulti = func() ([]uint32, error) {
			res, err := h.NewSearch().WithText("common", "auto", "tok1073741825").WithK(vfBigK).Execute()
			ids := make([]uint32, len(res))
			for i, r := range res {
				ids[i] = r.ID
			}
			return ids, err
		}
		t.flush = h.Flush
		t.write = func() error { return h.WriteTo(io.Discard, io.Discard, io.Discard, io.Discard) }
	case "store":
		st, err := vfOpenStore(dir, &c.Conf)
		if err != nil {
			return nil, err
		}
		t.store = st
		t.removeMayRefuse = true
		t.add = func(id uint32, vec []float32) error {
			return st.AddWithID(id, vfCloneF32(vec), vfDocText(id), map[string]interface{}{"n": int(id % 1000)})
		}
		t.addAuto = func(vec []float32) (uint32, error) {
			return st.Add(vfCloneF32(vec), "auto common", map[string]interface{}{"n": 1})
		}
		t.remove = st.Remove
		t.search = func(q []float32) ([]uint32, error) {
			res, err := st.NewSearch().WithVector(vfCloneF32(q)).WithK(vfBigK).Execute()
			ids := make([]uint32, len(res))
			for i, r := range res {
				ids[i] = r.ID
			}
			return ids, err
		}
		t.searchAgg = func(q []float32, agg string) ([]uint32, error) {
			res, err := st.NewSearch().WithVector(vfCloneF32(q)).WithScoreAggregation(ScoreAggregationKind(agg)).WithK(vfBigK).Execute()
			ids := make([]uint32, len(res))
			for i, r := range res {
				ids[i] = r.ID
			}
			return ids, err
		}
		t.searchMeta = func() ([]uint32, error) {
			res, err := st.NewSearch().WithVector(vfCloneF32(c.Vecs[0])).WithMetadata(Range("n", 0, 999)).WithK(vfBigK).Execute()
			ids := make([]uint32, len(res))
			for i, r := range res {
				ids[i] = r.ID
			}
			return ids, err
		}
		t.searchMulti = func() ([]uint32, error) {
			res, err := st.NewSearch().WithText("common", "auto", "tok1073741825").WithK(vfBigK).Execute()
			ids := make([]uint32, len(res))
			for i, r := range res {
				ids[i] = r.ID
			}
			return ids, err
		}
		t.flush = st.Flush
		t.write = func() error { return nil } // TriggerCompaction only when KF-1 is closed (see run)
	default:
		return nil, fmt.Errorf("unknown target %q", c.Target)
	}
	return t, nil
}

// vfRaceLogSize returns the total size of the race detector's log files (GORACE=log_path=...).
func vfRaceLog() (int64, string) {
	prefix := os.Getenv("VERIF_RACE_LOG")
	if prefix == "" {
		return 0, ""
	}
	matches, _ := filepath.Glob(prefix + "*")
	var total int64
	var text strings.Builder
	sort.Strings(matches)
	for _, m := range matches {
		data, err := os.ReadFile(m)
		if err == nil {
			total += int64(len(data))
			text.Write(data)
		}
	}
	return total, text.String()
}

// vfC11Run runs the case under a watchdog: "no deadlock" is part of the property, and a hang
// anywhere in the case (workload, directed schedule, quiescent searches, Close) must become a
// violation rather than a test timeout.
func vfC11Run(c vfC11Case, ctx *vfCtx) *vfViolation {
	res := make(chan *vfViolation, 1)
	go func() {
		defer func() {
			if r := recover(); r != nil {
				res <- vfFail("%s: panic outside the worker goroutines: %v", c.Target, r)
			}
		}()
		res <- vfC11RunCase(c, ctx)
	}()
	select {
	case v := <-res:
		return v
	case <-time.After(vfC11Deadline):
		buf := make([]byte, 1<<15)
		buf = buf[:runtime.Stack(buf, true)]
		return vfFail("the case (%d goroutines on one %s) did not finish within %v: deadlock?\n%s", len(c.Progs), c.Target, vfC11Deadline, buf)
	}
}

// The generated workloads finish in well under a second; the deadline only has to be far above
// what a loaded machine can add.
const vfC11Deadline = 90 * time.Second

func vfC11RunCase(c vfC11Case, ctx *vfCtx) *vfViolation {
	dir, err := os.MkdirTemp(vfEnv("VERIF_SCRATCH"), "c11-")
	if err != nil {
		return vfFail("mkdir: %v", err)
	}
	defer os.RemoveAll(dir)
	raceBefore, _ := vfRaceLog()
	if c.Target == "ids" {
		return vfC11AutoIDs(&c, ctx, raceBefore)
	}
	if c.Target == "filter_pool" {
		return vfC11FilterPool(&c, ctx, raceBefore)
	}
	if c.Target == "store_close" {
		return vfC11StoreClose(&c, ctx, filepath.Join(dir, "store"), raceBefore)
	}
	if c.Target == "store_flush_search" {
		return vfC11FlushVsSearch(&c, ctx, filepath.Join(dir, "store"), raceBefore)
	}
	t, err := vfBuildConcTarget(&c, filepath.Join(dir, "store"))
	if err != nil {
		return vfFail("building the target %s: %v", c.Target, err)
	}
	ctx.Class("target=" + c.Target)
	G := len(c.Progs)
	idOf := func(g, n int) uint32 { return uint32(1<<30 + g*1000 + n) }
	vecOf := func(g, n int) []float32 { return c.Vecs[(g*7+n)%len(c.Vecs)] }

	// directed schedule (store): park the first writer between choosing the memtable and writing
	var parked chan struct{}
	var releaseWriter chan struct{}
	var parkOnce atomic.Bool // only the FIRST arrival parks; later arrivals pass (sync.Once would block them until the first returns)
	if c.Directed && t.store != nil {
		parked, releaseWriter = make(chan struct{}), make(chan struct{})
		at := c.DirectedAt
		if at != "remove:before_remove" {
			at = "memq:before_write"
		}
		vfInstallHook(func(name string, args ...any) {
			if name == at {
				if parkOnce.CompareAndSwap(false, true) {
					close(parked)
					<-releaseWriter
				}
			}
		})
		defer vfInstallHook(nil)
		ctx.Class("directed_yield_at_" + at)
	}

	var clock, inFlight, overlaps atomic.Int64
	results := make([][]vfStamped, G)
	var autoIDs sync.Map
	var dupAuto atomic.Uint32
	var wg sync.WaitGroup
	start := make(chan struct{})
	panics := make(chan string, G)
	for g := 0; g < G; g++ {
		wg.Add(1)
		go func(g int) {
			defer wg.Done()
			defer func() {
				if r := recover(); r != nil {
					buf := make([]byte, 4096)
					buf = buf[:runtime.Stack(buf, false)]
					panics <- fmt.Sprintf("goroutine %d: panic: %v\n%s", g, r, buf)
				}
			}()
			<-start
			for _, op := range c.Progs[g] {
				s := vfStamped{g: g, op: op}
				if inFlight.Add(1) >= 2 {
					overlaps.Add(1)
					s.overlap = true
				}
				s.start = clock.Add(1)
				switch op.Op {
				case "add":
					s.id = idOf(g, op.N)
					s.err = t.add(s.id, vecOf(g, op.N))
				case "add_auto":
					if t.addAuto != nil {
						s.id, s.err = t.addAuto(vecOf(g, op.N))
						if s.err == nil {
							if _, dup := autoIDs.LoadOrStore(s.id, true); dup {
								dupAuto.Store(s.id)
							}
						}
					}
				case "remove":
					s.id = idOf(g, op.N)
					s.err = t.remove(s.id)
				case "search":
					if len(op.Only) > 0 && t.searchOnly != nil {
						only := make([]uint32, len(op.Only))
						for k, n := range op.Only {
							only[k] = idOf(g, n)
							if n == 0 {
								only[k] = 999999 // never added by anyone
							}
						}
						s.only = map[uint32]bool{}
						for _, id := range only {
							s.only[id] = true
						}
						s.ids, s.err = t.searchOnly(op.Q, only)
					} else if op.Agg != "" && t.searchAgg != nil {
						s.ids, s.err = t.searchAgg(op.Q, op.Agg)
					} else if op.Meta && t.searchMeta != nil {
						s.ids, s.err = t.searchMeta()
					} else if op.Multi && t.searchMulti != nil {
						s.ids, s.err = t.searchMulti()
					} else {
						s.ids, s.err = t.search(op.Q)
					}
				case "flush":
					s.err = t.flush()
				case "write":
					s.err = t.write()
				}
				s.end = clock.Add(1)
				inFlight.Add(-1)
				results[g] = append(results[g], s)
			}
		}(g)
	}
	close(start)
	done := make(chan struct{})
	go func() { wg.Wait(); close(done) }()

	var directedNote string
	if parked != nil {
		select {
		case <-parked:
			// a writer sits between "memtable chosen" and "written": rotate and flush now
			fin := make(chan struct{})
			go func() {
				vfStoreRotate(t.store)
				t.store.Flush()
				close(fin)
			}()
			select {
			case <-fin:
				directedNote = "rotation and flush completed while a writer was parked before its write"
			case <-time.After(300 * time.Millisecond):
				directedNote = "rotation / flush waited for the parked writer"
			}
			close(releaseWriter)
			<-fin
		case <-done:
			close(releaseWriter)
		case <-time.After(20 * time.Second):
			close(releaseWriter)
		}
	}
	select {
	case <-done:
	case <-time.After(60 * time.Second):
		buf := make([]byte, 1<<16)
		buf = buf[:runtime.Stack(buf, true)]
		return vfFail("the workload (%d goroutines on one %s) did not finish within 60 s: deadlock?\n%s", G, c.Target, buf)
	}
	select {
	case p := <-panics:
		return vfFail("%s under %d goroutines: %s", c.Target, G, p)
	default:
	}
	if id := dupAuto.Load(); id != 0 {
		return vfFail("automatically generated id %d was handed out twice", id)
	}

	// ---- (ii) outcomes are determined by the owner's program order ------------------
	type life struct {
		addStart, addEnd, rmStart, rmEnd int64
		added, removed                   bool
	}
	lives := map[uint32]*life{}
	for g := 0; g < G; g++ {
		for _, s := range results[g] {
			switch s.op.Op {
			case "add", "add_auto":
				if s.op.Op == "add_auto" && t.addAuto == nil {
					continue
				}
				if s.err != nil {
					return vfFail("%s, goroutine %d: adding its own fresh document %d failed merely because of the interleaving (%d goroutines%s): %v", c.Target, g, s.id, G, vfNote(directedNote), s.err)
				}
				lives[s.id] = &life{addStart: s.start, addEnd: s.end, added: true}
			case "remove":
				l := lives[s.id]
				alive := l != nil && l.added && !l.removed
				switch {
				case alive && s.err == nil:
					l.removed, l.rmStart, l.rmEnd = true, s.start, s.end
				case alive && s.err != nil:
					if !t.removeMayRefuse {
						return vfFail("%s, goroutine %d: removing its own live document %d failed merely because of the interleaving: %v", c.Target, g, s.id, s.err)
					}
					ctx.Class("store_remove_refused(document left the active memtable)")
				case !alive && s.err == nil && c.Target != "bm25" && c.Target != "metadata":
					return vfFail("%s, goroutine %d: removing document %d, which it had already removed (or never added), succeeded", c.Target, g, s.id)
				}
			case "search", "flush", "write":
				if s.err != nil {
					return vfFail("%s, goroutine %d: %s failed merely because of the interleaving (%d goroutines): %v", c.Target, g, s.op.Op, G, s.err)
				}
			}
		}
	}
	// ---- (iii) timestamped visibility -------------------------------------------------
	for g := 0; g < G; g++ {
		for _, s := range results[g] {
			if s.op.Op != "search" {
				continue
			}
			got := map[uint32]bool{}
			for _, id := range s.ids {
				got[id] = true
				if s.only != nil && !s.only[id] {
					return vfFail("%s: a search restricted to %d ids returned id %d, which is not one of them (%d goroutines)", c.Target, len(s.only), id, G)
				}
				l := lives[id]
				if l == nil {
					if _, auto := autoIDs.Load(id); !auto {
						return vfFail("%s: a search returned id %d, which was never added", c.Target, id)
					}
					continue
				}
				if l.addStart > s.end {
					return vfFail("%s: a search that ended at t=%d returned document %d whose add only started at t=%d", c.Target, s.end, id, l.addStart)
				}
				if l.removed && l.rmEnd < s.start {
					return vfFail("%s: a search that began at t=%d returned document %d whose removal had completed at t=%d", c.Target, s.start, id, l.rmEnd)
				}
			}
			if !t.exact {
				continue
			}
			for id, l := range lives {
				if s.only != nil && !s.only[id] {
					continue
				}
				if l.addEnd < s.start && (!l.removed || l.rmStart > s.end) && !got[id] {
					return vfFail("%s: a search (t=%d..%d, %d results) does not return document %d although its add completed at t=%d and %s (%d goroutines%s)", c.Target, s.start, s.end, len(s.ids), id, l.addEnd, vfRemovedNote(l.removed, l.rmStart), G, vfNote(directedNote))
				}
			}
		}
	}
	// ---- (v) post-quiescence state == model ---------------------------------------------
	final, err := t.search(c.Vecs[0])
	if err != nil {
		return vfFail("%s: search at quiescence failed: %v", c.Target, err)
	}
	got := map[uint32]bool{}
	for _, id := range final {
		got[id] = true
	}
	if t.resident != nil {
		have := t.resident()
		for id, l := range lives {
			if !l.removed && !have[id] {
				return vfFail("%s: at quiescence document %d (added successfully under concurrency, never removed) is not a live vertex of the index: the insert was lost (%d goroutines)", c.Target, id, G)
			}
		}
	}
	for id, l := range lives {
		if l.removed && got[id] {
			return vfFail("%s: at quiescence the removed document %d is still returned", c.Target, id)
		}
		if !l.removed && !got[id] && t.exact {
			return vfFail("%s: at quiescence document %d (added successfully, never removed) is not returned (%d of %d documents found; %d goroutines%s)", c.Target, id, len(final), len(lives), G, vfNote(directedNote))
		}
	}
	if t.store != nil {
		if err := t.store.Close(); err != nil {
			return vfFail("store: Close after the workload failed: %v", err)
		}
		st, err := vfOpenStore(filepath.Join(dir, "store"), &c.Conf)
		if err != nil {
			return vfFail("store: reopen after the workload failed: %v", err)
		}
		res, err := st.NewSearch().WithVector(vfCloneF32(c.Vecs[0])).WithK(vfBigK).Execute()
		st.Close()
		if err != nil {
			return vfFail("store: search after reopen failed: %v", err)
		}
		got := map[uint32]bool{}
		for _, r := range res {
			got[r.ID] = true
		}
		for id, l := range lives {
			if !l.removed && !got[id] {
				return vfFail("store: document %d was added successfully under concurrency and never removed, but is gone after Close + reopen (%d goroutines%s)", id, G, vfNote(directedNote))
			}
			if l.removed && got[id] {
				return vfFail("store: document %d was removed but is back after Close + reopen", id)
			}
		}
	}
	// ---- (i) race detector ------------------------------------------------------------
	if raceAfter, text := vfRaceLog(); raceAfter > raceBefore {
		lines := strings.Split(text, "\n")
		if len(lines) > 60 {
			lines = lines[len(lines)-60:]
		}
		return vfFail("the race detector reported a data race while %d goroutines used one %s:\n%s", G, c.Target, strings.Join(lines, "\n"))
	}
	if overlaps.Load() >= 10 || c.Directed {
		ctx.NonTrivial()
	}
	ctx.Count("overlapping_operations", overlaps.Load())
	if directedNote != "" {
		ctx.Class("directed: " + directedNote)
	}
	return nil
}

// vfC11AutoIDs: automatically generated ids are unique across goroutines and across index instances.
func vfC11AutoIDs(c *vfC11Case, ctx *vfCtx, raceBefore int64) *vfViolation {
	ctx.Class("target=ids")
	G := len(c.Progs)
	kind := DistanceKind(c.Metric)
	mk := func() HybridSearchIndex {
		vi, _ := NewFlatIndex(c.Dim, kind)
		return NewHybridSearchIndex(vi, NewBM25SearchIndex(), NewRoaringMetadataIndex())
	}
	instances := []HybridSearchIndex{mk(), mk(), mk()}
	var seen sync.Map
	var dup atomic.Uint32
	var refusedOK atomic.Bool
	var wg sync.WaitGroup
	start := make(chan struct{})
	record := func(id uint32) {
		if _, d := seen.LoadOrStore(id, true); d {
			dup.Store(id)
		}
	}
	for g := 0; g < G; g++ {
		wg.Add(1)
		go func(g int) {
			defer wg.Done()
			<-start
			for j := 0; j < 600+len(c.Progs[g]); j++ {
				switch (g + j) % 6 {
				case 0:
					record(NewVectorNode(nil).ID())
				case 1:
					record(NewMetadataNode(nil).ID())
				case 2, 3:
					// an add that must be refused (wrong dimension / unsupported metadata value):
					// whatever id it drew is not handed out, and must not disturb anyone else's
					var err error
					if j%2 == 0 {
						_, err = instances[(g+j)%len(instances)].Add(make([]float32, c.Dim+1), "auto common", map[string]interface{}{"n": j})
					} else {
						_, err = instances[(g+j)%len(instances)].Add(vfCloneF32(c.Vecs[j%len(c.Vecs)]), "auto common", map[string]interface{}{"bad": struct{}{}})
					}
					if err == nil {
						refusedOK.Store(true)
					}
				default:
					id, err := instances[(g+j)%len(instances)].Add(vfCloneF32(c.Vecs[j%len(c.Vecs)]), "auto common", map[string]interface{}{"n": j})
					if err == nil {
						record(id)
					}
				}
			}
		}(g)
	}
	close(start)
	wg.Wait()
	if refusedOK.Load() {
		return vfFail("an Add with a vector of the wrong dimension / an unsupported metadata value was accepted")
	}
	if id := dup.Load(); id != 0 {
		return vfFail("automatically generated id %d was handed out twice (%d goroutines, three hybrid instances plus NewVectorNode / NewMetadataNode)", id, G)
	}
	if raceAfter, text := vfRaceLog(); raceAfter > raceBefore {
		return vfFail("the race detector reported a data race in id generation:\n%s", text)
	}
	ctx.NonTrivial()
	return nil
}

// vfC11FlushVsSearch: many segments on disk, writers that add and immediately flush, searchers that
// loop: a search must contain every document whose add completed before it began, also while the
// document moves from its memtable into a segment.
func vfC11FlushVsSearch(c *vfC11Case, ctx *vfCtx, dir string, raceBefore int64) *vfViolation {
	ctx.Class("target=store_flush_search")
	conf := c.Conf
	conf.MemLimit, conf.FlushThr = 1, 1<<40
	st, err := vfOpenStore(dir, &conf)
	if err != nil {
		return vfFail("Open: %v", err)
	}
	defer st.Close()
	warm := 16 + 3*len(c.Progs)
	for i := 0; i < warm; i++ {
		if err := st.AddWithID(uint32(1<<29+i), vfCloneF32(c.Vecs[i%len(c.Vecs)]), vfDocText(uint32(i)), map[string]interface{}{"n": i}); err != nil {
			return vfFail("warm-up add: %v", err)
		}
	}
	if err := st.Flush(); err != nil {
		return vfFail("warm-up flush: %v", err)
	}
	G := len(c.Progs)
	writers := 1 + G/6
	var clock atomic.Int64
	type added struct {
		id  uint32
		end int64
	}
	var mu sync.Mutex
	var done []added
	var stop atomic.Bool
	var wg sync.WaitGroup
	violations := make(chan string, G)
	iters := 10 + len(c.Progs[0])/2
	for w := 0; w < writers; w++ {
		wg.Add(1)
		go func(w int) {
			defer wg.Done()
			for j := 0; j < iters && !stop.Load(); j++ {
				id := uint32(1<<30 + w*100000 + j)
				if err := st.AddWithID(id, vfCloneF32(c.Vecs[j%len(c.Vecs)]), vfDocText(id), map[string]interface{}{"n": j}); err != nil {
					violations <- fmt.Sprintf("writer %d: add of its own fresh document %d failed merely because of the interleaving: %v", w, id, err)
					return
				}
				e := clock.Add(1)
				mu.Lock()
				done = append(done, added{id, e})
				mu.Unlock()
				if err := st.Flush(); err != nil {
					violations <- fmt.Sprintf("writer %d: Flush failed merely because of the interleaving: %v", w, err)
					return
				}
			}
		}(w)
	}
	for r := 0; r < 3 && (r < G-writers || r < 2); r++ {
		wg.Add(1)
		go func(r int) {
			defer wg.Done()
			for !stop.Load() {
				mu.Lock()
				snapshot := append([]added(nil), done...)
				mu.Unlock()
				start := clock.Add(1)
				res, err := st.NewSearch().WithVector(vfCloneF32(c.Vecs[r%len(c.Vecs)])).WithK(vfBigK).Execute()
				if err != nil {
					violations <- fmt.Sprintf("searcher %d: search failed merely because of the interleaving: %v", r, err)
					return
				}
				got := map[uint32]bool{}
				for _, x := range res {
					got[x.ID] = true
				}
				for _, a := range snapshot {
					if a.end < start && !got[a.id] {
						violations <- fmt.Sprintf("a search that began at t=%d (%d results) does not return document %d whose add completed at t=%d (the document was being flushed from its memtable into a segment; %d writers, %d segments)", start, len(res), a.id, a.end, writers, vfStoreSegmentCount(st))
						return
					}
				}
			}
		}(r)
	}
	// writers finish on their own; then stop the searchers
	waitWriters := make(chan struct{})
	go func() {
		for {
			mu.Lock()
			n := len(done)
			mu.Unlock()
			if n >= writers*iters || stop.Load() {
				close(waitWriters)
				return
			}
			time.Sleep(time.Millisecond)
		}
	}()
	select {
	case v := <-violations:
		stop.Store(true)
		wg.Wait()
		return vfFail("store: %s", v)
	case <-waitWriters:
	case <-time.After(120 * time.Second):
		stop.Store(true)
		return vfFail("store: the flush-vs-search workload did not finish within 120 s")
	}
	stop.Store(true)
	wg.Wait()
	select {
	case v := <-violations:
		return vfFail("store: %s", v)
	default:
	}
	if raceAfter, text := vfRaceLog(); raceAfter > raceBefore {
		return vfFail("the race detector reported a data race in the flush-vs-search workload:\n%s", text)
	}
	ctx.NonTrivial()
	return nil
}

// vfC11StoreClose: the generated programs run against one store while another goroutine calls
// Close half-way (and, in half of the cases, TriggerCompaction is mixed in). No data race, panic or
// hang; Close returns nil; an operation may fail only if it overlapped Close or came after it, and
// must fail once Close has returned; every document whose add completed before Close began (and that
// was not removed) is found after reopening - unless a compaction ran (open finding KF-1).
func vfC11StoreClose(c *vfC11Case, ctx *vfCtx, dir string, raceBefore int64) *vfViolation {
	ctx.Class("target=store_close")
	st, err := vfOpenStore(dir, &c.Conf)
	if err != nil {
		return vfFail("Open: %v", err)
	}
	G := len(c.Progs)
	compact := c.Dim == 4
	ctx.ClassIf(compact, "store_close_with_TriggerCompaction")
	// directed schedule: enough segments for a compaction, the compaction worker parked after it has
	// written the merged segment and before it swaps the segment list; Close is called meanwhile
	var parked, releaseWorker chan struct{}
	if compact && c.Directed {
		for i := 0; i < c.Conf.CompThr+1; i++ {
			if err := st.AddWithID(uint32(1<<29+i), vfCloneF32(c.Vecs[i%len(c.Vecs)]), vfDocText(uint32(i)), map[string]interface{}{"n": i}); err != nil {
				return vfFail("warm-up add: %v", err)
			}
			if err := st.Flush(); err != nil {
				return vfFail("warm-up flush: %v", err)
			}
		}
		parked, releaseWorker = make(chan struct{}), make(chan struct{})
		var once atomic.Bool // only the FIRST arrival parks; later arrivals pass (sync.Once would block them until the first returns)
		vfInstallHook(func(name string, args ...any) {
			if name == "compact:written" {
				if once.CompareAndSwap(false, true) {
					close(parked)
					<-releaseWorker
				}
			}
		})
		defer vfInstallHook(nil)
		st.TriggerCompaction()
		ctx.Class("directed_close_while_compaction_is_parked_at_compact:written")
	}
	total := 0
	for _, p := range c.Progs {
		total += len(p)
	}
	idOf := func(g, n int) uint32 { return uint32(1<<30 + g*1000 + n) }
	var clock, opsDone atomic.Int64
	var closeBegan, closeEnded atomic.Int64
	results := make([][]vfStamped, G)
	panics := make(chan string, G+1)
	var wg sync.WaitGroup
	start := make(chan struct{})
	for g := 0; g < G; g++ {
		wg.Add(1)
		go func(g int) {
			defer wg.Done()
			defer func() {
				if r := recover(); r != nil {
					buf := make([]byte, 4096)
					buf = buf[:runtime.Stack(buf, false)]
					panics <- fmt.Sprintf("goroutine %d: panic: %v\n%s", g, r, buf)
				}
			}()
			<-start
			for j, op := range c.Progs[g] {
				s := vfStamped{g: g, op: op}
				s.start = clock.Add(1)
				switch op.Op {
				case "add", "add_auto":
					s.id = idOf(g, op.N)
					s.err = st.AddWithID(s.id, vfCloneF32(c.Vecs[(g*7+op.N)%len(c.Vecs)]), vfDocText(s.id), map[string]interface{}{"n": int(s.id % 1000)})
				case "remove":
					s.id = idOf(g, op.N)
					s.err = st.Remove(s.id)
				case "search":
					var res []HybridSearchResult
					if op.Multi {
						res, s.err = st.NewSearch().WithText("common", "auto").WithK(vfBigK).Execute()
					} else {
						res, s.err = st.NewSearch().WithVector(vfCloneF32(op.Q)).WithK(vfBigK).Execute()
					}
					for _, r := range res {
						s.ids = append(s.ids, r.ID)
					}
				case "flush":
					s.err = st.Flush()
				case "write":
					if compact && (g+j)%2 == 0 {
						st.TriggerCompaction()
					} else {
						vfStoreEvict(st)
					}
				}
				s.end = clock.Add(1)
				opsDone.Add(1)
				results[g] = append(results[g], s)
			}
		}(g)
	}
	var closeErr error
	wg.Add(1)
	go func() {
		defer wg.Done()
		defer func() {
			if r := recover(); r != nil {
				buf := make([]byte, 4096)
				buf = buf[:runtime.Stack(buf, false)]
				panics <- fmt.Sprintf("Close: panic: %v\n%s", r, buf)
			}
		}()
		<-start
		for opsDone.Load() < int64(total/2) {
			runtime.Gosched()
		}
		if parked != nil {
			select {
			case <-parked:
				go func() {
					time.Sleep(150 * time.Millisecond) // Close is under way (or waiting for the worker) by now
					close(releaseWorker)
				}()
			case <-time.After(3 * time.Second):
				close(releaseWorker) // the compaction did not start (nothing to compact): plain close
			}
		}
		closeBegan.Store(clock.Add(1))
		closeErr = st.Close()
		closeEnded.Store(clock.Add(1))
	}()
	close(start)
	wg.Wait()
	select {
	case p := <-panics:
		return vfFail("store with Close racing against %d goroutines: %s", G, p)
	default:
	}
	if closeErr != nil {
		return vfFail("store: Close racing against %d goroutines failed: %v", G, closeErr)
	}
	// the handle is closed now, whatever was going on when Close was called (workload, compaction):
	// every further call returns, with an error (a call that blocks is reported by the case watchdog)
	if _, err := st.Add(vfCloneF32(c.Vecs[0]), "after close", map[string]interface{}{"n": 1}); err == nil {
		return vfFail("store: Add on the handle succeeded after Close had returned")
	}
	if err := st.Flush(); err == nil {
		return vfFail("store: Flush on the handle succeeded after Close had returned")
	}
	if _, err := st.NewSearch().WithVector(vfCloneF32(c.Vecs[0])).WithK(3).Execute(); err == nil {
		return vfFail("store: a search on the handle succeeded after Close had returned")
	}
	if err := st.Close(); err == nil {
		return vfFail("store: a second Close returned nil")
	}
	cb, ce := closeBegan.Load(), closeEnded.Load()
	type life struct {
		addEnd         int64
		added, removed bool
		maybe          bool // an add or remove overlapped Close: either outcome is acceptable
	}
	lives := map[uint32]*life{}
	overlapped := 0
	for g := 0; g < G; g++ {
		for _, s := range results[g] {
			beforeClose, afterClose := s.end < cb, s.start > ce
			if !beforeClose && !afterClose {
				overlapped++
			}
			if s.op.Op == "write" {
				continue
			}
			if afterClose && s.err == nil {
				return vfFail("store, goroutine %d: %s started after Close had returned and still succeeded", g, s.op.Op)
			}
			if beforeClose && s.err != nil && s.op.Op != "remove" {
				return vfFail("store, goroutine %d: %s completed before Close began and failed merely because of the interleaving (%d goroutines): %v", g, s.op.Op, G, s.err)
			}
			switch s.op.Op {
			case "add", "add_auto":
				l := lives[s.id]
				if l == nil {
					l = &life{}
					lives[s.id] = l
				}
				if s.err == nil {
					l.added, l.addEnd = true, s.end
					l.maybe = l.maybe || !beforeClose
				}
			case "remove":
				if l := lives[s.id]; l != nil && s.err == nil {
					l.removed = true
				} else if l != nil && !beforeClose {
					l.maybe = true
				}
			case "search":
				for _, id := range s.ids {
					if l := lives[id]; l == nil {
						// the owner may not have recorded it yet; check ownership arithmetic instead
						if warm := id >= 1<<29 && id < 1<<29+16; !warm && (id < 1<<30 || int(id-1<<30)/1000 >= G) {
							return vfFail("store: a search returned id %d, which was never added", id)
						}
					}
				}
			}
		}
	}
	if vfLockExists(dir) {
		return vfFail("store: LOCK still present after a Close that raced with %d goroutines", G)
	}
	st2, err := vfOpenStore(dir, &c.Conf)
	if err != nil {
		return vfFail("store: reopen after a Close that raced with %d goroutines failed: %v", G, err)
	}
	res, err := st2.NewSearch().WithVector(vfCloneF32(c.Vecs[0])).WithK(vfBigK).Execute()
	st2.Close()
	if err != nil {
		return vfFail("store: search after reopen failed: %v", err)
	}
	got := map[uint32]bool{}
	for _, r := range res {
		got[r.ID] = true
		if r.ID >= 1<<29 && r.ID < 1<<29+16 {
			continue // warm-up documents of the directed variant
		}
		if lives[r.ID] == nil || !lives[r.ID].added && !lives[r.ID].maybe {
			return vfFail("store: after reopen the search returns id %d, which was never added successfully", r.ID)
		}
	}
	if !compact {
		for id, l := range lives {
			if l.added && !l.removed && !l.maybe && !got[id] {
				return vfFail("store: document %d was added successfully (t=%d) before Close began (t=%d) and never removed, but is gone after Close + reopen (%d goroutines)", id, l.addEnd, cb, G)
			}
		}
	}
	if raceAfter, text := vfRaceLog(); raceAfter > raceBefore {
		lines := strings.Split(text, "\n")
		if len(lines) > 60 {
			lines = lines[len(lines)-60:]
		}
		return vfFail("the race detector reported a data race while Close raced with %d goroutines on one store:\n%s", G, strings.Join(lines, "\n"))
	}
	if overlapped > 0 {
		ctx.NonTrivial()
	}
	ctx.Count("operations_overlapping_close", int64(overlapped))
	return nil
}

// vfC11FilterPool: id restrictions go through one process-wide pool of filter objects shared by all
// index kinds. Phase 1 (sequential) sends restricted searches of every shape (hits, no hits, unknown
// ids, untrained / empty index) through every kind, so that whatever each kind hands back to the pool
// is in it; phase 2 runs restricted searches with DISJOINT id lists from many goroutines on shared
// indexes: each must get exactly its own documents.
func vfC11FilterPool(c *vfC11Case, ctx *vfCtx, raceBefore int64) *vfViolation {
	ctx.Class("target=filter_pool")
	kind := DistanceKind(c.Metric)
	G := len(c.Progs)
	train := c.Train
	if len(train) == 0 {
		for i := 0; i < 40; i++ {
			train = append(train, c.Vecs[i%len(c.Vecs)])
		}
	}
	var idxs []VectorIndex
	for _, k := range []string{"flat", "hnsw", "ivf", "pq", "ivfpq"} {
		cc := vfC02Case{Kind: k, Metric: c.Metric, Dim: c.Dim, M: 16, EfC: 100, EfS: 600, NList: 3, NBits: 2, Train: train}
		if k == "pq" || k == "ivfpq" {
			cc.M, cc.NList = 2, 2
		}
		ut, err := vfBuildIndex(&cc)
		if err != nil {
			continue // a kind that cannot be trained on this data takes no part
		}
		idxs = append(idxs, ut.idx)
	}
	bm := NewBM25SearchIndex()
	perG := 24
	idOf := func(g, j int) uint32 { return uint32(1<<30 + g*1000 + j) }
	for g := 0; g < G; g++ {
		for j := 0; j < perG; j++ {
			v := c.Vecs[(g*7+j)%len(c.Vecs)]
			for _, ix := range idxs {
				if err := ix.Add(*NewVectorNodeWithID(idOf(g, j), vfCloneF32(v))); err != nil {
					return vfFail("filter_pool: Add: %v", err)
				}
			}
			if err := bm.Add(idOf(g, j), vfDocText(idOf(g, j))); err != nil {
				return vfFail("filter_pool: bm25 Add: %v", err)
			}
		}
	}
	_ = kind
	problems := make(chan string, 4*G)
	for round := 0; round < 4; round++ {
		// phase 1: every kind, restrictions with and without hits
		for rep := 0; rep < 4; rep++ {
			for _, ix := range idxs {
				for _, only := range [][]uint32{{999999}, {idOf(0, 0)}, {999999, idOf(0, 1), idOf(0, 2)}, {5}} {
					for _, np := range []int{0, 1} {
						if _, err := ix.NewSearch().WithQuery(vfCloneF32(c.Vecs[rep%len(c.Vecs)])).WithK(rep).WithNProbes(np).WithDocumentIDs(only...).Execute(); err != nil {
							return vfFail("filter_pool: restricted search: %v", err)
						}
					}
				}
			}
			bm.NewSearch().WithQuery("common").WithK(0).WithDocumentIDs(999999).Execute()
			bm.NewSearch().WithQuery("nothingmatches").WithK(0).WithDocumentIDs(idOf(0, 0)).Execute()
		}
		// phase 2
		var wg sync.WaitGroup
		start := make(chan struct{})
		for g := 0; g < G; g++ {
			wg.Add(1)
			go func(g int) {
				defer wg.Done()
				defer func() {
					if r := recover(); r != nil {
						problems <- fmt.Sprintf("goroutine %d: panic: %v", g, r)
					}
				}()
				own := make([]uint32, perG)
				want := map[uint32]bool{}
				for j := range own {
					own[j] = idOf(g, j)
					want[own[j]] = true
				}
				<-start
				for it := 0; it < 12+len(c.Progs[g])/2; it++ {
					var ids []uint32
					if it%3 == 2 {
						res, err := bm.NewSearch().WithQuery("common").WithK(0).WithDocumentIDs(own...).Execute()
						if err != nil {
							problems <- fmt.Sprintf("goroutine %d: bm25 search: %v", g, err)
							return
						}
						for _, r := range res {
							ids = append(ids, r.GetId())
						}
					} else {
						ix := idxs[(g+it)%len(idxs)]
						res, err := ix.NewSearch().WithQuery(vfCloneF32(c.Vecs[it%len(c.Vecs)])).WithK(0).WithNProbes(0).WithDocumentIDs(own...).Execute()
						if err != nil {
							problems <- fmt.Sprintf("goroutine %d: restricted search: %v", g, err)
							return
						}
						if _, isHNSW := ix.(*HNSWIndex); isHNSW {
							// approximate kind: only "nothing outside the restriction"
							for _, r := range res {
								if !want[r.GetId()] {
									problems <- fmt.Sprintf("goroutine %d: an hnsw search restricted to its own %d ids returned id %d", g, perG, r.GetId())
									return
								}
							}
							continue
						}
						for _, r := range res {
							ids = append(ids, r.GetId())
						}
					}
					if len(ids) != perG {
						problems <- fmt.Sprintf("goroutine %d: a search restricted to its own %d live ids returned %d results (%d goroutines searching with disjoint restrictions)", g, perG, len(ids), G)
						return
					}
					for _, id := range ids {
						if !want[id] {
							problems <- fmt.Sprintf("goroutine %d: a search restricted to its own ids returned id %d, which belongs to another goroutine's restriction", g, id)
							return
						}
					}
				}
			}(g)
		}
		close(start)
		wg.Wait()
		select {
		case p := <-problems:
			return vfFail("filter_pool: %s", p)
		default:
		}
	}
	if raceAfter, text := vfRaceLog(); raceAfter > raceBefore {
		lines := strings.Split(text, "\n")
		if len(lines) > 60 {
			lines = lines[len(lines)-60:]
		}
		return vfFail("the race detector reported a data race while %d goroutines ran id-restricted searches:\n%s", G, strings.Join(lines, "\n"))
	}
	ctx.NonTrivial()
	return nil
}

func vfNote(s string) string {
	if s == "" {
		return ""
	}
	return "; " + s
}

func vfRemovedNote(removed bool, rmStart int64) string {
	if !removed {
		return "it was never removed"
	}
	return fmt.Sprintf("its removal only started at t=%d", rmStart)
}

func TestVerif_C11(t *testing.T) { vfCheck(t, "C11", vfC11Gen, vfC11Run) }
