package comet

// Shared by C07 (round trip) and C16 (truncation / mismatch): building a state of any of the
// eight index kinds from a generated history, serialising it, constructing a fresh receiver,
// and running a query battery.

import (
	"bytes"
	"fmt"
	"io"
	"math"
	"sort"

	"pgregory.net/rapid"
)

var vfSerKinds = []string{"flat", "hnsw", "ivf", "pq", "ivfpq", "bm25", "metadata", "hybrid"}

type vfSerCase struct {
	Kind string     `json:"kind"`
	Vec  *vfC02Case `json:"vec,omitempty"`  // flat | hnsw | ivf | pq | ivfpq
	Text *vfC03Case `json:"text,omitempty"` // bm25
	Meta *vfC04Case `json:"meta,omitempty"` // metadata
	Hyb  *vfC05Case `json:"hyb,omitempty"`  // hybrid
	// state shaping
	Untrained bool `json:"untrained,omitempty"`  // trainable kinds: never trained (adds then fail)
	RemoveAll bool `json:"remove_all,omitempty"` // remove every live document at the end of the history
	// continuation after reload (same op vocabulary as the history)
	ContVec  []vfSOp `json:"cont_vec,omitempty"`
	ContText []vfTOp `json:"cont_text,omitempty"`
	ContMeta []vfMOp `json:"cont_meta,omitempty"`
	ContHyb  []vfYOp `json:"cont_hyb,omitempty"`
	// the reader handed to ReadFrom returns at most Chunk bytes per Read call (0: whatever is asked
	// for): io.Reader allows short reads, and segments are read through gzip, which produces them
	Chunk int `json:"reader_chunk,omitempty"`
	// after the history, up to three REMOVED ids are added again with other content (update = remove
	// + add): the state that is written then holds re-used ids (tombstone and live entry of one id)
	ReAdd bool `json:"re_add,omitempty"`
	// trainable vector kinds: after the history the index is trained AGAIN, on another sample (the
	// reverse of every second training vector): "train" is an operation of the history like any other
	ReTrain bool `json:"re_train,omitempty"`
}

// vfChunkReader returns at most n bytes per Read and offers nothing but Read.
type vfChunkReader struct {
	r io.Reader
	n int
}

func (c *vfChunkReader) Read(p []byte) (int, error) {
	if len(p) > c.n {
		p = p[:c.n]
	}
	return c.r.Read(p)
}

func vfMaybeChunked(r io.Reader, chunk int) io.Reader {
	if chunk <= 0 {
		return r
	}
	return &vfChunkReader{r, chunk}
}

func vfSerGen(rt *rapid.T, kinds []string) vfSerCase {
	c := vfSerCase{Kind: rapid.SampledFrom(kinds).Draw(rt, "ser_kind")}
	c.RemoveAll = rapid.IntRange(0, 9).Draw(rt, "remove_all") == 0
	c.Chunk = rapid.SampledFrom([]int{0, 0, 1, 2, 3, 5, 7, 13, 64}).Draw(rt, "reader_chunk")
	c.ReAdd = rapid.IntRange(0, 3).Draw(rt, "re_add_removed_ids") == 0
	c.ReTrain = rapid.IntRange(0, 3).Draw(rt, "re_train") == 0
	switch c.Kind {
	case "bm25":
		t := vfC03Gen(rt)
		cont := vfC03Gen(rt)
		c.Text, c.ContText = &t, cont.Ops
	case "metadata":
		m := vfC04Gen(rt)
		cont := vfC04Gen(rt)
		c.Meta, c.ContMeta = &m, cont.Ops
	case "hybrid":
		h := vfC05Gen(rt)
		h.VecKind = rapid.SampledFrom([]string{"flat", "flat", "ivf", "hnsw", "pq", "ivfpq"}).Draw(rt, "hyb_vec_kind")
		if h.VecKind == "ivf" && len(h.Train) == 0 {
			g := vfNewVecGen(rt, h.Dim)
			h.Train = vfGenTrainingSet(rt, g, 3, 12, DistanceKind(h.Metric) == Cosine)
		}
		if h.VecKind == "pq" || h.VecKind == "ivfpq" {
			g := vfNewVecGen(rt, h.Dim)
			h.Train = vfGenTrainingSet(rt, g, 24, 30, DistanceKind(h.Metric) == Cosine)
		}
		c.Hyb = &h
		// continuation: more ops of the same generator (its add refs are local to it)
		cont := vfC05Gen(rt)
		for _, op := range cont.Ops {
			if op.Op == "add" && op.Doc != nil {
				if len(op.Doc.Vec) > 0 {
					op.Doc.Vec = nil // dimensions may differ between the two generated cases
				}
			}
			if op.Op == "search" && op.Q != nil {
				op.Q.Vec = nil
			}
			c.ContHyb = append(c.ContHyb, op) // a remove's ordinal indexes the concatenated list of adds
		}
	default:
		var v vfC02Case
		for {
			v = vfC02Gen(rt)
			if rapid.IntRange(0, 1).Draw(rt, "force_kind") == 0 || true {
				break
			}
		}
		v.Kind = c.Kind
		// re-derive the parameters the kind needs (vfC02Gen drew them for its own kind)
		switch c.Kind {
		case "pq", "ivfpq":
			if v.M < 1 || v.M > 4 {
				v.M = 2
			}
			if v.Dim%v.M != 0 {
				v.M = 1
			}
			if v.NBits < 1 || v.NBits > 5 {
				v.NBits = 2
			}
			if v.NList < 1 {
				v.NList = 2
			}
		case "hnsw":
			if rapid.Bool().Draw(rt, "hnsw_exact_regime") {
				v.M, v.EfC, v.EfS = 32, 200, 200 // exact regime: results do not depend on the random levels
			} else {
				// approximate regime: source and reloaded index must still agree exactly (a search is a
				// deterministic function of the graph); only the lock-step continuation is restricted
				v.M, v.EfC, v.EfS = rapid.IntRange(2, 3).Draw(rt, "hnsw_small_m"), 6, 4
			}
		case "ivf":
			if v.NList < 1 {
				v.NList = 2
			}
		}
		need := 0
		switch c.Kind {
		case "ivf":
			need = v.NList
		case "pq":
			need = 1 << v.NBits
		case "ivfpq":
			need = 1 << v.NBits
			if v.NList*10 > need {
				need = v.NList * 10
			}
		}
		if need > 0 && len(v.Train) < need {
			g := vfNewVecGen(rt, v.Dim)
			v.Train = vfGenTrainingSet(rt, g, need, need+10, DistanceKind(v.Metric) == Cosine)
		}
		if need > 0 {
			c.Untrained = rapid.IntRange(0, 9).Draw(rt, "untrained") == 0
		}
		c.Vec = &v
		// continuation: the tail of a second generated history with the same dimension
		cont := vfC02Gen(rt)
		// the second history was generated for its own dimension: vectors are cut / zero-padded
		fit := func(x []float32) []float32 {
			out := make([]float32, v.Dim)
			copy(out, x)
			if DistanceKind(v.Metric) == Cosine && vfIsZero(out) {
				out[0] = 1
			}
			return out
		}
		for _, op := range cont.Ops {
			if op.Op == "add_bad" && len(op.Vec) != v.Dim {
				continue
			}
			if op.Op == "add" {
				op.Vec = fit(op.Vec)
			}
			if op.Op == "search" {
				for qi := range op.Qs {
					op.Qs[qi] = fit(op.Qs[qi])
				}
				if op.NP > v.NList+1 {
					op.NP = v.NList
				}
			}
			op.ID += 5000 // fresh ids
			c.ContVec = append(c.ContVec, op)
		}
	}
	return c
}

type vfHit64 struct {
	ID    uint32
	Score float64
}

// vfSerState is one live object of the kind under test plus its own bookkeeping.
type vfSerState struct {
	c    *vfSerCase
	ut   *vfIndexUT
	bm   *BM25SearchIndex
	mi   *RoaringMetadataIndex
	hy   HybridSearchIndex
	hvi  VectorIndex
	hti  TextIndex
	hmi  MetadataIndex
	live map[uint32]bool // ids added and not removed (all kinds)
	gone map[uint32]bool // ids removed at some point
	// hybrid: ordinal -> id
	addIDs []uint32
}

// vfSerNew constructs an EMPTY object with the case's construction parameters
// (train=false: the receiver of a ReadFrom, which must restore the trained state itself).
func vfSerNew(c *vfSerCase, train bool) (*vfSerState, error) {
	s := &vfSerState{c: c, live: map[uint32]bool{}, gone: map[uint32]bool{}}
	switch c.Kind {
	case "bm25":
		s.bm = NewBM25SearchIndex()
	case "metadata":
		s.mi = NewRoaringMetadataIndex()
	case "hybrid":
		h := c.Hyb
		if h.HasVec {
			var tr [][]float32
			if train {
				tr = h.Train
			}
			var err error
			if h.VecKind == "ivf" && !train {
				s.hvi, err = NewIVFIndex(h.Dim, 3, DistanceKind(h.Metric))
			} else if h.VecKind == "pq" && !train {
				s.hvi, err = NewPQIndex(h.Dim, DistanceKind(h.Metric), 1, 2)
			} else if h.VecKind == "ivfpq" && !train {
				s.hvi, err = NewIVFPQIndex(h.Dim, DistanceKind(h.Metric), 2, 1, 2)
			} else {
				s.hvi, err = vfNewVectorIndexOfKind(h.VecKind, h.Dim, DistanceKind(h.Metric), tr)
			}
			if err != nil {
				return nil, err
			}
		}
		if h.HasText {
			s.hti = NewBM25SearchIndex()
		}
		if h.HasMeta {
			s.hmi = NewRoaringMetadataIndex()
		}
		s.hy = NewHybridSearchIndex(s.hvi, s.hti, s.hmi)
	default:
		cc := *c.Vec
		if !train || c.Untrained {
			cc.Train = nil
		}
		ut, err := vfBuildIndex(&cc)
		if err != nil {
			return nil, err
		}
		s.ut = ut
	}
	return s, nil
}

func (s *vfSerState) applyVec(op *vfSOp) {
	dim := s.c.Vec.Dim
	switch op.Op {
	case "add", "add_bad":
		if op.ID == 0 || s.live[op.ID] || s.gone[op.ID] || len(op.Vec) != dim {
			return
		}
		if err := s.ut.idx.Add(*NewVectorNodeWithID(op.ID, vfCloneF32(op.Vec))); err == nil {
			s.live[op.ID] = true
		}
	case "remove":
		if err := s.ut.idx.Remove(*NewVectorNodeWithID(op.ID, nil)); err == nil {
			delete(s.live, op.ID)
			s.gone[op.ID] = true
		}
	case "flush":
		s.ut.idx.Flush()
	}
}

func (s *vfSerState) applyText(op *vfTOp) {
	switch op.Op {
	case "add":
		if op.ID == 0 || s.gone[op.ID] {
			return
		}
		if s.bm.Add(op.ID, op.Text) == nil {
			s.live[op.ID] = true
		}
	case "remove":
		s.bm.Remove(op.ID)
		if s.live[op.ID] {
			delete(s.live, op.ID)
			s.gone[op.ID] = true
		}
	case "flush":
		s.bm.Flush()
	}
}

func (s *vfSerState) applyMeta(op *vfMOp) {
	switch op.Op {
	case "add":
		if op.ID == 0 || s.live[op.ID] || s.gone[op.ID] {
			return
		}
		if s.mi.Add(*NewMetadataNodeWithID(op.ID, vfMetaToGo(op.Meta))) == nil {
			s.live[op.ID] = true
		}
	case "remove":
		s.mi.Remove(*NewMetadataNodeWithID(op.ID, nil))
		if s.live[op.ID] {
			delete(s.live, op.ID)
			s.gone[op.ID] = true
		}
	}
}

func (s *vfSerState) applyHyb(op *vfYOp) {
	h := s.c.Hyb
	switch op.Op {
	case "add":
		d := op.Doc
		if d == nil {
			s.addIDs = append(s.addIDs, 0)
			return
		}
		vec := vfCloneF32(d.Vec)
		if len(vec) > 0 && (len(vec) != h.Dim || DistanceKind(h.Metric) == Cosine && vfIsZero(vec)) {
			vec = nil
		}
		// explicit ids only, so that source and reloaded twin use the same ids
		id := d.ID
		if id == 0 {
			id = uint32(1<<29 + len(s.addIDs) + len(s.live)*1000)
		}
		if s.live[id] || s.gone[id] {
			s.addIDs = append(s.addIDs, 0)
			return
		}
		if err := s.hy.AddWithID(id, vec, d.Text, vfMetaToGo(d.Meta)); err != nil {
			s.addIDs = append(s.addIDs, 0)
			return
		}
		s.live[id] = true
		s.addIDs = append(s.addIDs, id)
	case "remove":
		if op.Ref < 0 || op.Ref >= len(s.addIDs) || s.addIDs[op.Ref] == 0 {
			return
		}
		id := s.addIDs[op.Ref]
		if s.hy.Remove(id) == nil {
			delete(s.live, id)
			s.gone[id] = true
		}
	case "flush":
		s.hy.Flush()
	}
}

// applyHistory runs the history of the case (searches are skipped: they form the battery).
func (s *vfSerState) applyHistory() {
	c := s.c
	switch c.Kind {
	case "bm25":
		for i := range c.Text.Ops {
			s.applyText(&c.Text.Ops[i])
		}
	case "metadata":
		for i := range c.Meta.Ops {
			s.applyMeta(&c.Meta.Ops[i])
		}
	case "hybrid":
		for i := range c.Hyb.Ops {
			s.applyHyb(&c.Hyb.Ops[i])
		}
	default:
		for i := range c.Vec.Ops {
			s.applyVec(&c.Vec.Ops[i])
		}
	}
	if c.RemoveAll {
		s.removeAll()
	}
	if c.ReAdd && !c.RemoveAll {
		s.reAddSome()
	}
	if c.ReTrain && !c.Untrained && c.Vec != nil && (c.Kind == "ivf" || c.Kind == "pq" || c.Kind == "ivfpq") && len(c.Vec.Train) > 0 {
		var nodes []VectorNode
		for i := len(c.Vec.Train) - 1; i >= 0; i-- {
			if i%2 == 0 || len(c.Vec.Train) < 2*vfTrainNeed(c) {
				nodes = append(nodes, *NewVectorNodeWithID(uint32(900000+i), vfCloneF32(c.Vec.Train[i])))
			}
		}
		s.ut.idx.Train(nodes) // refused or accepted: either way the state is "reachable"
	}
}

func vfTrainNeed(c *vfSerCase) int {
	switch c.Kind {
	case "ivf":
		return c.Vec.NList
	case "pq":
		return 1 << c.Vec.NBits
	case "ivfpq":
		need := 1 << c.Vec.NBits
		if c.Vec.NList*10 > need {
			need = c.Vec.NList * 10
		}
		return need
	}
	return 0
}

// reAddSome re-adds up to three removed ids with new content.
func (s *vfSerState) reAddSome() {
	ids := vfSortedU32Bool(s.gone)
	if len(ids) > 3 {
		ids = ids[:3]
	}
	c := s.c
	for k, id := range ids {
		var err error
		switch c.Kind {
		case "bm25":
			err = s.bm.Add(id, fmt.Sprintf("readded fox zeta w%d", k))
		case "metadata":
			err = s.mi.Add(*NewMetadataNodeWithID(id, map[string]interface{}{"s1": "a", "i1": 7 + k, "b1": true}))
		case "hybrid":
			var vec []float32
			if c.Hyb.HasVec {
				vec = make([]float32, c.Hyb.Dim)
				vec[0], vec[len(vec)-1] = 1, float32(k+1)
			}
			err = s.hy.AddWithID(id, vec, "readded fox", map[string]interface{}{"i1": 7 + k})
		default:
			vec := make([]float32, c.Vec.Dim)
			vec[0], vec[len(vec)-1] = 1, float32(k+1)
			err = s.ut.idx.Add(*NewVectorNodeWithID(id, vec))
		}
		if err == nil {
			delete(s.gone, id)
			s.live[id] = true
		}
	}
}

func (s *vfSerState) removeAll() {
	ids := make([]uint32, 0, len(s.live))
	for id := range s.live {
		ids = append(ids, id)
	}
	sort.Slice(ids, func(i, j int) bool { return ids[i] < ids[j] })
	for _, id := range ids {
		switch s.c.Kind {
		case "bm25":
			s.bm.Remove(id)
		case "metadata":
			s.mi.Remove(*NewMetadataNodeWithID(id, nil))
		case "hybrid":
			s.hy.Remove(id)
		default:
			s.ut.idx.Remove(*NewVectorNodeWithID(id, nil))
		}
		delete(s.live, id)
		s.gone[id] = true
	}
}

// applyCont applies continuation op i (0-based); returns false when there is no such op.
func (s *vfSerState) applyCont(i int) bool {
	c := s.c
	switch c.Kind {
	case "bm25":
		if i >= len(c.ContText) {
			return false
		}
		op := c.ContText[i]
		op.ID += 7000
		s.applyText(&op)
	case "metadata":
		if i >= len(c.ContMeta) {
			return false
		}
		op := c.ContMeta[i]
		op.ID += 7000
		s.applyMeta(&op)
	case "hybrid":
		if i >= len(c.ContHyb) {
			return false
		}
		s.applyHyb(&c.ContHyb[i])
	default:
		if i >= len(c.ContVec) {
			return false
		}
		s.applyVec(&c.ContVec[i])
	}
	return true
}

// write serialises the object. For a hybrid index the four streams are returned concatenated
// in the order hybrid, vector, text, metadata (what one ReadFrom consumes) and separately.
func (s *vfSerState) write() (stream []byte, reported int64, parts [][]byte, err error) {
	var buf bytes.Buffer
	switch s.c.Kind {
	case "bm25":
		reported, err = s.bm.WriteTo(&buf)
	case "metadata":
		reported, err = s.mi.WriteTo(&buf)
	case "hybrid":
		var hb, vb, tb, mb bytes.Buffer
		err = s.hy.WriteTo(&hb, &vb, &tb, &mb)
		parts = [][]byte{hb.Bytes(), vb.Bytes(), tb.Bytes(), mb.Bytes()}
		for _, p := range parts {
			buf.Write(p)
		}
		reported = int64(buf.Len())
	default:
		reported, err = s.ut.idx.WriteTo(&buf)
	}
	return buf.Bytes(), reported, parts, err
}

func (s *vfSerState) read(r io.Reader) (int64, error) {
	switch s.c.Kind {
	case "bm25":
		return s.bm.ReadFrom(r)
	case "metadata":
		return s.mi.ReadFrom(r)
	case "hybrid":
		return s.hy.ReadFrom(r)
	default:
		return s.ut.idx.ReadFrom(r)
	}
}

// battery runs every search of the case (history and continuation) against the object.
// A search that errs contributes the marker result {0, NaN}.
func (s *vfSerState) battery(max int) [][]vfHit64 {
	var out [][]vfHit64
	errMark := []vfHit64{{0, math.NaN()}}
	c := s.c
	add := func(h []vfHit64, err error) bool {
		if err != nil {
			out = append(out, errMark)
		} else {
			out = append(out, h)
		}
		return len(out) >= max
	}
	switch c.Kind {
	case "bm25":
		all := append(append([]vfTOp{}, c.Text.Ops...), c.ContText...)
		for _, op := range all {
			if op.Op != "search" || len(op.Qs) == 0 {
				continue
			}
			k := op.K
			if len(op.Qs) > 1 {
				k = 0 // no per-query truncation: a tie at an inner cut may legitimately be resolved differently
			}
			q := s.bm.NewSearch().WithQuery(op.Qs...).WithK(k)
			if len(op.IDs) > 0 {
				q = q.WithDocumentIDs(op.IDs...)
			}
			if op.Agg != "" {
				q = q.WithScoreAggregation(ScoreAggregationKind(op.Agg))
			}
			res, err := q.Execute()
			var h []vfHit64
			for _, r := range res {
				h = append(h, vfHit64{r.GetId(), float64(r.GetScore())})
			}
			if add(h, err) {
				return out
			}
		}
		// node-id text queries for a few live documents (the query is rebuilt from the stored tokens)
		for _, id := range vfSortedU32Bool(s.live) {
			res, err := s.bm.NewSearch().WithNode(id).WithK(0).Execute()
			var h []vfHit64
			for _, r := range res {
				h = append(h, vfHit64{r.GetId(), float64(r.GetScore())})
			}
			if add(h, err) || len(out) >= max-1 {
				return out
			}
		}
	case "metadata":
		all := append(append([]vfMOp{}, c.Meta.Ops...), c.ContMeta...)
		for i := range all {
			op := &all[i]
			if op.Op != "search" {
				continue
			}
			ids, err := vfRunMetaSearch(s.mi, op)
			var h []vfHit64
			for _, id := range ids {
				h = append(h, vfHit64{id, 0})
			}
			if add(h, err) {
				return out
			}
		}
	case "hybrid":
		all := append(append([]vfYOp{}, c.Hyb.Ops...), c.ContHyb...)
		for _, op := range all {
			if op.Op != "search" || op.Q == nil || op.Q.K < 1 {
				continue
			}
			q := *op.Q
			if len(q.Vec) > 0 && (len(q.Vec) != c.Hyb.Dim || !c.Hyb.HasVec) {
				q.Vec = nil
			}
			if !c.Hyb.HasText {
				q.Texts = nil
			}
			if !c.Hyb.HasMeta {
				q.Groups = nil
			}
			if len(q.Vec) == 0 && len(q.Texts) == 0 && len(q.Groups) == 0 {
				continue
			}
			q.NP = 1000
			if len(q.Vec) > 0 && len(q.Texts) > 0 || len(q.Texts) > 1 {
				q.K = 100000 // no per-modality truncation (ties at an inner cut are resolved arbitrarily)
			}
			if q.Fusion == "reciprocal_rank" {
				q.Fusion = "max" // RRF ranks inside a tie group are assigned arbitrarily: not a deterministic battery entry
			}
			fusion, ferr := vfBuildFusion(&q)
			if ferr != nil {
				continue
			}
			res, err := vfHybridExec(s.hy, &q, fusion)
			var h []vfHit64
			for _, r := range res {
				h = append(h, vfHit64{r.ID, r.Score})
			}
			if add(h, err) {
				return out
			}
		}
	default:
		all := append(append([]vfSOp{}, c.Vec.Ops...), c.ContVec...)
		for _, op := range all {
			if op.Op != "search" {
				continue
			}
			nodes := op.Nodes
			if c.Kind == "pq" || c.Kind == "ivfpq" {
				nodes = nil // raw vectors are not persisted by design
			}
			if len(op.Qs) == 0 && len(nodes) == 0 {
				continue
			}
			valid := true
			for _, q := range op.Qs {
				if len(q) != c.Vec.Dim || DistanceKind(c.Vec.Metric) == Cosine && vfIsZero(q) {
					valid = false // outside the query domain (whether it errs depends on the state)
				}
			}
			if !valid {
				continue
			}
			o := op
			o.Ef = 0 // an efSearch override below the resident count makes HNSW approximate: not a deterministic battery entry
			k := op.K
			if len(op.Qs)+len(nodes) > 1 {
				k = 0 // no per-query truncation (see above)
			}
			res, err := s.ut.search(op.Qs, nodes, &o, k)
			var h []vfHit64
			for _, r := range res {
				h = append(h, vfHit64{r.ID, float64(r.Score)})
			}
			if add(h, err) {
				return out
			}
		}
	}
	return out
}

// fullScan returns what the object holds, through every modality it has (k = all).
func (s *vfSerState) fullScan() [][]vfHit64 {
	var out [][]vfHit64
	c := s.c
	errMark := []vfHit64{{0, math.NaN()}}
	put := func(h []vfHit64, err error) {
		if err != nil {
			out = append(out, errMark)
		} else {
			out = append(out, h)
		}
	}
	textScan := func(run func(q string) ([]vfHit64, error)) {
		for _, tok := range []string{"a", "b", "fox", "fish", "zeta", "x", "3", "tm", "iv", "common"} {
			put(run(tok))
		}
	}
	switch c.Kind {
	case "bm25":
		textScan(func(q string) ([]vfHit64, error) {
			res, err := s.bm.NewSearch().WithQuery(q).WithK(0).Execute()
			var h []vfHit64
			for _, r := range res {
				h = append(h, vfHit64{r.GetId(), float64(r.GetScore())})
			}
			return h, err
		})
	case "metadata":
		for _, f := range vfMFieldNames {
			res, err := s.mi.NewSearch().WithFilters(Exists(f)).Execute()
			var h []vfHit64
			for _, id := range vfMetaIDs(res) {
				h = append(h, vfHit64{id, 0})
			}
			put(h, err)
		}
		res, err := s.mi.NewSearch().Execute()
		var h []vfHit64
		for _, id := range vfMetaIDs(res) {
			h = append(h, vfHit64{id, 0})
		}
		put(h, err)
	case "hybrid":
		conv := func(res []HybridSearchResult, err error) ([]vfHit64, error) {
			var h []vfHit64
			for _, r := range res {
				h = append(h, vfHit64{r.ID, r.Score})
			}
			return h, err
		}
		if c.Hyb.HasVec {
			q := make([]float32, c.Hyb.Dim)
			q[0] = 1
			put(conv(s.hy.NewSearch().WithVector(q).WithK(vfBigK).WithNProbes(1000).Execute()))
		}
		if c.Hyb.HasText {
			textScan(func(q string) ([]vfHit64, error) {
				return conv(s.hy.NewSearch().WithText(q).WithK(vfBigK).Execute())
			})
		}
		if c.Hyb.HasMeta {
			for _, f := range vfMFieldNames {
				put(conv(s.hy.NewSearch().WithMetadata(Exists(f)).WithK(vfBigK).Execute()))
			}
		}
	default:
		q := make([]float32, c.Vec.Dim)
		q[0] = 1
		res, err := s.ut.idx.NewSearch().WithQuery(q).WithK(0).WithNProbes(0).Execute()
		var h []vfHit64
		for _, r := range res {
			h = append(h, vfHit64{r.GetId(), float64(r.GetScore())})
		}
		put(h, err)
	}
	return out
}

// removeOne removes one live document (all kinds); reports whether the object accepted it.
// flushNow flushes the object under test (every kind has a Flush).
func (s *vfSerState) flushNow() error {
	switch s.c.Kind {
	case "bm25":
		return s.bm.Flush()
	case "metadata":
		return s.mi.Flush()
	case "hybrid":
		return s.hy.Flush()
	default:
		return s.ut.idx.Flush()
	}
}

func (s *vfSerState) removeOne(id uint32) bool {
	var err error
	switch s.c.Kind {
	case "bm25":
		err = s.bm.Remove(id)
	case "metadata":
		err = s.mi.Remove(*NewMetadataNodeWithID(id, nil))
	case "hybrid":
		err = s.hy.Remove(id)
	default:
		err = s.ut.idx.Remove(*NewVectorNodeWithID(id, nil))
	}
	if err == nil {
		delete(s.live, id)
		s.gone[id] = true
	}
	return err == nil
}

// vfBatteriesEqual compares two battery outputs: same error pattern, same score at every rank,
// same score for every id present in both, ids present in only one must sit in the tie group
// at the cut. Scores are compared up to float rounding.
func vfBatteriesEqual(a, b [][]vfHit64) (bool, string) {
	if len(a) != len(b) {
		return false, fmt.Sprintf("%d vs %d battery entries", len(a), len(b))
	}
	near := func(x, y float64) bool {
		return x == y || math.Abs(x-y) <= 1e-6*(math.Abs(x)+math.Abs(y))+1e-12
	}
	for qi := range a {
		x, y := a[qi], b[qi]
		xe := len(x) == 1 && math.IsNaN(x[0].Score)
		ye := len(y) == 1 && math.IsNaN(y[0].Score)
		if xe != ye {
			return false, fmt.Sprintf("query %d: one side errs, the other does not", qi)
		}
		if xe {
			continue
		}
		if len(x) != len(y) {
			return false, fmt.Sprintf("query %d: %d vs %d results (%v vs %v)", qi, len(x), len(y), vfIDs64(x), vfIDs64(y))
		}
		if len(x) == 0 {
			continue
		}
		mx := map[uint32]float64{}
		for _, h := range x {
			mx[h.ID] = h.Score
		}
		my := map[uint32]float64{}
		for _, h := range y {
			my[h.ID] = h.Score
		}
		// the tie group at the cut: rank-wise scores must agree except that equal scores may be permuted
		sx, sy := vfSortedScores(x), vfSortedScores(y)
		for i := range sx {
			if !near(sx[i], sy[i]) {
				return false, fmt.Sprintf("query %d: sorted score %d is %v vs %v", qi, i, sx[i], sy[i])
			}
		}
		lastLo, lastHi := sx[0], sx[len(sx)-1]
		for id, s := range my {
			if t, ok := mx[id]; ok {
				if !near(s, t) {
					return false, fmt.Sprintf("query %d: id %d scores %v vs %v", qi, id, t, s)
				}
			} else if !near(s, lastLo) && !near(s, lastHi) {
				return false, fmt.Sprintf("query %d: id %d (score %v) only on one side and not in the tie group at the cut", qi, id, s)
			}
		}
		for id, s := range mx {
			if _, ok := my[id]; !ok && !near(s, lastLo) && !near(s, lastHi) {
				return false, fmt.Sprintf("query %d: id %d (score %v) only on one side and not in the tie group at the cut", qi, id, s)
			}
		}
	}
	return true, ""
}

func vfSortedScores(h []vfHit64) []float64 {
	out := make([]float64, len(h))
	for i, x := range h {
		out[i] = x.Score
	}
	sort.Float64s(out)
	return out
}

func vfIDs64(h []vfHit64) []uint32 {
	out := make([]uint32, len(h))
	for i, x := range h {
		out[i] = x.ID
	}
	return out
}
