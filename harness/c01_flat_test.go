package comet

// C01 — flat index returns exactly the k nearest live vectors (DESIGN §4 C01).
// Oracle: brute-force float64 k-NN model over the generated Add/Remove/Flush history.

import (
	"errors"
	"math"
	"strconv"
	"testing"

	"pgregory.net/rapid"
)

type vfVecOp struct {
	Op  string    `json:"op"` // add | add_bad | remove | flush | search | search_bad
	ID  uint32    `json:"id,omitempty"`
	Vec []float32 `json:"vec,omitempty"`
	K   int       `json:"k,omitempty"`
	Thr float32   `json:"thr,omitempty"`
	IDs []uint32  `json:"ids,omitempty"`
	NP  int       `json:"nprobes,omitempty"`
	// C14 only
	Code  []int `json:"code,omitempty"`
	List  int   `json:"list,omitempty"`
	ThrOf int   `json:"thr_of_rank,omitempty"`
	// add (trainable kinds): 1 + index of the training vector whose VERY SLICE (the one that was
	// handed to Train) is handed to Add; 0 = a private copy, as usual
	TrainRef int `json:"train_ref,omitempty"`
}

type vfC01Case struct {
	Dim    int       `json:"dim"`
	Metric string    `json:"metric"`
	Ops    []vfVecOp `json:"ops"`
}

// vfGenThreshold: 0 (disabled), the exact float32 distance of a stored vector, or random.
func vfGenThreshold(rt *rapid.T, kind DistanceKind, q []float32, stored [][]float32) float32 {
	switch rapid.IntRange(0, 3).Draw(rt, "thr_class") {
	case 0, 1:
		return 0
	case 2:
		if len(stored) > 0 {
			v := stored[rapid.IntRange(0, len(stored)-1).Draw(rt, "thr_of")]
			if kind != Cosine || (!vfIsZero(v) && !vfIsZero(q)) {
				w, _ := vfOracleDist(kind, q, v)
				return float32(w)
			}
		}
		return 0
	default:
		return float32(rapid.Float64Range(0, 20).Draw(rt, "thr"))
	}
}

func vfGenIDSubset(rt *rapid.T, known []uint32) []uint32 {
	if rapid.IntRange(0, 2).Draw(rt, "ids_class") != 0 {
		return nil
	}
	// the restriction is a SET given as a list: order, repetitions and the relation between the
	// end points and the length carry no meaning. A quarter of the lists are built to look like a
	// contiguous ascending run without being one (first + len-1 == last, arbitrary middle).
	if len(known) > 0 && rapid.IntRange(0, 3).Draw(rt, "ids_lookalike_run") == 0 {
		a := known[rapid.IntRange(0, len(known)-1).Draw(rt, "ids_run_base")]
		n := rapid.IntRange(3, 5).Draw(rt, "ids_run_len")
		if a < math.MaxUint32-8 {
			l := []uint32{a}
			for j := 1; j < n-1; j++ {
				switch rapid.IntRange(0, 2).Draw(rt, "ids_run_mid") {
				case 0:
					l = append(l, a) // repetition
				case 1:
					l = append(l, known[rapid.IntRange(0, len(known)-1).Draw(rt, "ids_run_known")])
				default:
					l = append(l, a+uint32(n)+uint32(rapid.IntRange(0, 3).Draw(rt, "ids_run_out")))
				}
			}
			return append(l, a+uint32(n)-1)
		}
	}
	var ids []uint32
	for _, id := range known {
		if rapid.Bool().Draw(rt, "ids_pick") {
			ids = append(ids, id)
		}
	}
	if rapid.Bool().Draw(rt, "ids_absent") {
		ids = append(ids, uint32(rapid.IntRange(100000, 100010).Draw(rt, "ids_absent_id")))
	}
	if len(ids) > 1 && rapid.Bool().Draw(rt, "ids_dup") {
		ids = append(ids, ids[0])
	}
	if len(ids) > 2 && rapid.Bool().Draw(rt, "ids_shuffle") {
		ids = rapid.Permutation(ids).Draw(rt, "ids_perm")
	}
	return ids
}

func vfC01Gen(rt *rapid.T) vfC01Case {
	c := vfC01Case{}
	switch rapid.IntRange(0, 9).Draw(rt, "dimclass") {
	case 0, 1, 2, 3, 4, 5:
		c.Dim = rapid.IntRange(1, 4).Draw(rt, "dim")
	case 6, 7, 8:
		c.Dim = rapid.IntRange(5, 16).Draw(rt, "dim")
	default:
		c.Dim = rapid.IntRange(17, 64).Draw(rt, "dim")
	}
	kind := rapid.SampledFrom(vfMetrics).Draw(rt, "metric")
	c.Metric = string(kind)
	g := vfNewVecGenFor(rt, c.Dim, DistanceKind(c.Metric))
	used := map[uint32]bool{}
	var live, removed, all []uint32
	vecs := map[uint32][]float32{}
	// one op per element of a rapid slice (so that shrinking can delete whole ops); the generator
	// threads the generation-time state through the closure
	opGen := rapid.Custom(func(rt *rapid.T) vfVecOp {
		w := rapid.IntRange(0, 99).Draw(rt, "opclass")
		switch {
		case w < 40 || len(all) == 0:
			v := g.draw(rt, "v")
			if kind == Cosine && vfIsZero(v) {
				return vfVecOp{Op: "add_bad", ID: vfGenFreshID(rt, used), Vec: v}
			}
			id := vfGenFreshID(rt, used)
			live = append(live, id)
			all = append(all, id)
			vecs[id] = v
			return vfVecOp{Op: "add", ID: id, Vec: v}
		case w < 44:
			// failing add: wrong dimension
			d := c.Dim + rapid.SampledFrom([]int{-1, 1, 2}).Draw(rt, "baddim")
			if d < 0 {
				d = 0
			}
			v := make([]float32, d)
			for j := range v {
				v[j] = 1
			}
			return vfVecOp{Op: "add_bad", ID: vfGenFreshID(rt, used), Vec: v}
		case w < 60:
			// remove: live (often the first inserted), already removed, or never added
			var id uint32
			switch r := rapid.IntRange(0, 9).Draw(rt, "rmclass"); {
			case r < 6 && len(live) > 0:
				j := 0
				if rapid.Bool().Draw(rt, "rm_notfirst") {
					j = rapid.IntRange(0, len(live)-1).Draw(rt, "rm_idx")
				}
				id = live[j]
				live = append(live[:j:j], live[j+1:]...)
				removed = append(removed, id)
			case r < 8 && len(removed) > 0:
				id = removed[rapid.IntRange(0, len(removed)-1).Draw(rt, "rm_again")]
			default:
				id = uint32(rapid.IntRange(200000, 200005).Draw(rt, "rm_unknown"))
			}
			return vfVecOp{Op: "remove", ID: id, Vec: vfGenRemovePayload(rt, g)}
		case w < 68:
			if len(live) >= 3 && rapid.IntRange(0, 2).Draw(rt, "purge") == 0 {
				// several removals at once, then a flush: the compaction sees many tombstones
				op := vfVecOp{Op: "purge"}
				var keep []uint32
				for _, id := range live {
					if rapid.Bool().Draw(rt, "purge_this") {
						op.IDs = append(op.IDs, id)
						removed = append(removed, id)
					} else {
						keep = append(keep, id)
					}
				}
				live = keep
				return op
			}
			return vfVecOp{Op: "flush"}
		case w < 71:
			// failing search: wrong dimension or zero query under cosine
			q := make([]float32, c.Dim+1)
			if kind == Cosine && rapid.Bool().Draw(rt, "zeroq") {
				q = make([]float32, c.Dim)
			} else {
				q[0] = 1
			}
			return vfVecOp{Op: "search_bad", Vec: q, K: 3}
		default:
			var q []float32
			if kind == Cosine {
				q = g.drawNonZero(rt, "q")
			} else {
				q = g.draw(rt, "q")
			}
			var stored [][]float32
			for _, id := range all {
				stored = append(stored, vecs[id])
			}
			op := vfVecOp{Op: "search", Vec: q}
			op.K = vfGenK(rt, -3, len(live), 3)
			op.Thr = vfGenThreshold(rt, kind, q, stored)
			op.IDs = vfGenIDSubset(rt, all)
			if rapid.IntRange(0, 4).Draw(rt, "thr_of_on") == 0 {
				op.Thr, op.ThrOf = 0, rapid.IntRange(1, 8).Draw(rt, "thr_of_rank")
			}
			return op
		}
	})
	c.Ops = vfListOf(rt, "ops", opGen, 1, 60)
	// always end with a search so that every history is observed
	var q []float32
	if kind == Cosine {
		q = g.drawNonZero(rt, "q")
	} else {
		q = g.draw(rt, "q")
	}
	c.Ops = append(c.Ops, vfVecOp{Op: "search", Vec: q, K: rapid.IntRange(-1, len(live)+1).Draw(rt, "k_last")})
	return c
}

// vfVecModel is the reference state of one vector index.
type vfVecModel struct {
	kind     DistanceKind
	live     map[uint32][]float32 // original (unpreprocessed) vectors
	resident map[uint32]bool      // removed but not flushed yet
}

func vfNewVecModel(kind DistanceKind) *vfVecModel {
	return &vfVecModel{kind: kind, live: map[uint32][]float32{}, resident: map[uint32]bool{}}
}

// candidates returns the oracle's eligible set for one query.
func (m *vfVecModel) candidates(q []float32, thr float32, ids []uint32) []vfCand {
	var restrict map[uint32]bool
	if len(ids) > 0 {
		restrict = map[uint32]bool{}
		for _, id := range ids {
			restrict[id] = true
		}
	}
	var out []vfCand
	for id, v := range m.live {
		if restrict != nil && !restrict[id] {
			continue
		}
		want, tol := vfOracleDist(m.kind, q, v)
		c := vfCand{ID: id, Want: want, Tol: tol}
		if thr > 0 {
			t := float64(thr)
			if want-tol > t {
				continue // definitely beyond the threshold
			}
			if want+tol > t && tol > 0 {
				c.Optional = true
			}
		}
		out = append(out, c)
	}
	return out
}

func vfC01Run(c vfC01Case, ctx *vfCtx) *vfViolation {
	ctx.HistoryLen("history", len(c.Ops))
	kind := DistanceKind(c.Metric)
	idx, err := NewFlatIndex(c.Dim, kind)
	if err != nil {
		return vfFail("NewFlatIndex(%d,%s): %v", c.Dim, kind, err)
	}
	m := vfNewVecModel(kind)
	ctx.Class("metric=" + c.Metric)
	sawRemove, sawFlushAfterRemove := false, false
	for i, op := range c.Ops {
		if op.Op == "purge" {
			for _, id := range op.IDs {
				if _, isLive := m.live[id]; !isLive {
					continue
				}
				if err := idx.Remove(*NewVectorNodeWithID(id, nil)); err != nil {
					return vfFail("op %d: Remove(%d) of a live vector failed: %v", i, id, err)
				}
				delete(m.live, id)
				m.resident[id] = true
				sawRemove = true
			}
			ctx.Class("purge(several removals, then flush)")
			op.Op = "flush"
		}
		switch op.Op {
		case "add":
			if kind == Cosine && vfIsZero(op.Vec) || len(op.Vec) != c.Dim {
				op.Op = "add_bad" // (can only arise in a hand-edited replay)
			}
			if _, dup := m.live[op.ID]; dup || m.resident[op.ID] || op.ID == 0 {
				continue // outside the property's domain (distinct non-zero ids); shrinking cannot create it, replays might
			}
			if err := idx.Add(*NewVectorNodeWithID(op.ID, vfCloneF32(op.Vec))); err != nil {
				return vfFail("op %d: Add(%d) failed: %v", i, op.ID, err)
			}
			m.live[op.ID] = op.Vec
		case "add_bad":
			err := idx.Add(*NewVectorNodeWithID(op.ID, vfCloneF32(op.Vec)))
			if err == nil {
				return vfFail("op %d: Add of an invalid vector (len %d, zero=%v) succeeded", i, len(op.Vec), vfIsZero(op.Vec))
			}
			if len(op.Vec) == c.Dim && !errors.Is(err, ErrZeroVector) {
				return vfFail("op %d: zero vector rejected with %v, want ErrZeroVector", i, err)
			}
			ctx.Class("failed_add")
		case "remove":
			err := idx.Remove(*NewVectorNodeWithID(op.ID, vfCloneF32(op.Vec)))
			_, isLive := m.live[op.ID]
			if isLive && err != nil {
				return vfFail("op %d: Remove(%d) of a live vector failed: %v", i, op.ID, err)
			}
			if !isLive && err == nil {
				return vfFail("op %d: Remove(%d) of an unknown / already removed id succeeded", i, op.ID)
			}
			if isLive {
				delete(m.live, op.ID)
				m.resident[op.ID] = true
				sawRemove = true
			}
		case "flush":
			if err := idx.Flush(); err != nil {
				return vfFail("op %d: Flush: %v", i, err)
			}
			if len(m.resident) > 0 {
				sawFlushAfterRemove = true
			}
			m.resident = map[uint32]bool{}
		case "search_bad":
			if _, err := idx.NewSearch().WithQuery(op.Vec).WithK(op.K).Execute(); err == nil {
				return vfFail("op %d: search with an invalid query (len %d) succeeded", i, len(op.Vec))
			}
		case "search":
			q := vfCloneF32(op.Vec)
			var unthresholded []vfHit
			if op.ThrOf > 0 {
				// threshold = exactly the reported score of a hit of the unthresholded, unlimited search
				sAll := idx.NewSearch().WithQuery(vfCloneF32(op.Vec)).WithK(0)
				if len(op.IDs) > 0 {
					sAll = sAll.WithDocumentIDs(op.IDs...)
				}
				rAll, err := sAll.Execute()
				if err != nil {
					return vfFail("op %d: search failed: %v", i, err)
				}
				unthresholded = vfHitsOf(rAll)
				op.Thr = 0
				if len(unthresholded) > 0 {
					op.Thr = unthresholded[(op.ThrOf-1)%len(unthresholded)].Score
				}
			}
			s := idx.NewSearch().WithQuery(q).WithK(op.K).WithThreshold(op.Thr)
			if len(op.IDs) > 0 {
				s = s.WithDocumentIDs(op.IDs...)
			}
			res, err := s.Execute()
			if err != nil {
				return vfFail("op %d: search failed: %v", i, err)
			}
			if op.ThrOf > 0 && op.Thr > 0 {
				if v := vfThresholdRelation(unthresholded, vfHitsOf(res), op.Thr, op.K); v != nil {
					v.Msg = "op " + itoa(i) + ": " + v.Msg
					return v
				}
				ctx.Class("threshold_equal_to_a_reported_score")
			}
			if !vfBitsEqual(q, op.Vec) {
				return vfFail("op %d: search modified the caller's query", i)
			}
			cands := m.candidates(op.Vec, op.Thr, op.IDs)
			if v := vfCompareTopK(vfHitsOf(res), cands, op.K, true); v != nil {
				v.Msg = "op " + itoa(i) + " search(k=" + itoa(op.K) + "): " + v.Msg
				return v
			}
			// the node carried by each result is the stored vector of that id
			for _, r := range res {
				orig := m.live[r.GetId()]
				st := r.Node.Vector()
				if len(st) != c.Dim {
					return vfFail("op %d: result node %d has a vector of length %d", i, r.GetId(), len(st))
				}
				if kind != Cosine && !vfBitsEqual(st, orig) {
					return vfFail("op %d: result node %d carries another vector than the one added", i, r.GetId())
				}
				if kind == Cosine {
					n := vfRefNorm(orig)
					for j := range st {
						if math.Abs(float64(st[j])-float64(orig[j])/n) > 1e-5 {
							return vfFail("op %d: result node %d does not carry the normalised vector that was added", i, r.GetId())
						}
					}
				}
			}
			// classification
			excluded := len(m.resident) > 0 || len(cands) < len(m.live) || len(res) < len(cands)
			if excluded && len(res) > 0 {
				ctx.NonTrivial()
			}
			ctx.ClassIf(len(m.resident) > 0, "search_with_unflushed_removal")
			ctx.ClassIf(sawFlushAfterRemove, "search_after_flush_of_removal")
			ctx.ClassIf(len(op.IDs) > 0, "search_with_id_restriction")
			ctx.ClassIf(op.Thr > 0, "search_with_threshold")
			ctx.ClassIf(len(res) < len(cands), "search_truncated_by_k")
			ctx.ClassIf(op.K <= 0, "search_k<=0")
			opt := false
			for _, cd := range cands {
				opt = opt || cd.Optional
			}
			ctx.ClassIf(opt, "threshold_borderline(weaker check)")
			ctx.Class("searches")
		}
	}
	_ = sawRemove
	return nil
}

func itoa(i int) string { return strconv.Itoa(i) }

func TestVerif_C01(t *testing.T) { vfCheck(t, "C01", vfC01Gen, vfC01Run) }
