package comet

// C12 — HNSW never hides live vectors: non-empty, exact when small, robust to removals.
// Regime A (<= 2M resident since last empty/flush, ef >= 2M): differential against exact k-NN.
// Regime B (hundreds of vectors): non-emptiness + literal BFS reachability with the KF-2
// attribution predicate of DESIGN §4 C12.

import (
	"fmt"
	"sort"
	"testing"

	"pgregory.net/rapid"
)

type vfHOp struct {
	Op     string    `json:"op"` // add | remove | flush | search
	ID     uint32    `json:"id,omitempty"`
	Vec    []float32 `json:"vec,omitempty"`
	Target string    `json:"target,omitempty"` // remove: id | entry | maxlevel | hub | nth | all_but_one
	Nth    int       `json:"nth,omitempty"`
	K      int       `json:"k,omitempty"`
	Thr    float32   `json:"thr,omitempty"`
	IDs    []uint32  `json:"ids,omitempty"`
	// regime A: per-search efSearch override (>= 2M; 0 = none, negative = through SetEfSearch) and
	// "threshold = the score reported at this rank of the unthresholded answer" (0 = off)
	Ef    int `json:"ef,omitempty"`
	ThrOf int `json:"thr_of_rank,omitempty"`
}

type vfC12Case struct {
	Regime string  `json:"regime"` // A | B
	Dim    int     `json:"dim"`
	Metric string  `json:"metric"`
	M      int     `json:"m"`
	EfC    int     `json:"ef_construction"`
	EfS    int     `json:"ef_search"`
	Ops    []vfHOp `json:"ops"`
}

func vfC12Gen(rt *rapid.T) vfC12Case {
	c := vfC12Case{}
	c.Regime = rapid.SampledFrom([]string{"A", "A", "B"}).Draw(rt, "regime")
	c.Dim = rapid.IntRange(1, 32).Draw(rt, "dim")
	if rapid.IntRange(0, 2).Draw(rt, "lowdim") > 0 {
		c.Dim = rapid.IntRange(1, 4).Draw(rt, "dim_low")
	}
	kind := rapid.SampledFrom(vfMetrics).Draw(rt, "metric")
	c.Metric = string(kind)
	c.M = rapid.IntRange(2, 32).Draw(rt, "m")
	if rapid.Bool().Draw(rt, "small_m") {
		c.M = rapid.IntRange(2, 6).Draw(rt, "m_small")
	}
	minOps, maxOps := 1, 4*c.M+10
	if c.Regime == "A" {
		c.EfC = 2*c.M + rapid.IntRange(0, 2*c.M).Draw(rt, "efc_extra")
		c.EfS = 2*c.M + rapid.IntRange(0, 2*c.M).Draw(rt, "efs_extra")
	} else {
		minOps, maxOps = 40, 300
		if vfTierThorough() && rapid.IntRange(0, 9).Draw(rt, "huge") == 0 {
			maxOps = 3000
		}
		c.EfC = rapid.IntRange(c.M, 4*maxOps).Draw(rt, "efc")
		c.EfS = rapid.IntRange(c.M, 4*maxOps).Draw(rt, "efs")
		if rapid.Bool().Draw(rt, "small_ef") {
			c.EfC = rapid.IntRange(c.M, 4*c.M).Draw(rt, "efc_small")
			c.EfS = rapid.IntRange(c.M, 4*c.M).Draw(rt, "efs_small")
		}
	}
	g := vfNewVecGen(rt, c.Dim)
	// clustered / outlier data for regime B
	var centres [][]float32
	for i := 0; i < 3; i++ {
		centres = append(centres, g.drawNonZero(rt, "centre"))
	}
	used := map[uint32]bool{}
	nLive, nResident := 0, 0
	var all []uint32
	opGen := rapid.Custom(func(rt *rapid.T) vfHOp {
		w := rapid.IntRange(0, 99).Draw(rt, "opclass")
		canAdd := c.Regime == "B" || nResident < 2*c.M
		switch {
		case (w < 55 || nLive == 0) && canAdd:
			var v []float32
			if c.Regime == "B" && rapid.IntRange(0, 2).Draw(rt, "clustered") == 0 {
				ce := centres[rapid.IntRange(0, len(centres)-1).Draw(rt, "centre_idx")]
				v = vfCloneF32(ce)
				for j := range v {
					v[j] += float32(rapid.IntRange(-2, 2).Draw(rt, "jitter")) * 0.01
				}
			} else {
				v = g.draw(rt, "v")
			}
			if kind == Cosine && vfIsZero(v) {
				v[0] = 1
			}
			id := vfGenFreshID(rt, used)
			all = append(all, id)
			nLive++
			nResident++
			return vfHOp{Op: "add", ID: id, Vec: v}
		case w < 75 && nLive > 0:
			nLive--
			t := rapid.SampledFrom([]string{"entry", "entry", "maxlevel", "hub", "nth", "nth", "first"}).Draw(rt, "rm_target")
			return vfHOp{Op: "remove", Target: t, Nth: rapid.IntRange(0, 1000).Draw(rt, "rm_nth")}
		case w < 78 && nLive > 1:
			nLive = 1
			return vfHOp{Op: "remove", Target: "all_but_one", Nth: rapid.IntRange(0, 1000).Draw(rt, "keep_nth")}
		case w < 80 && nLive > 0:
			nLive = 0
			return vfHOp{Op: "remove", Target: "all"}
		case w < 86:
			nResident = nLive
			return vfHOp{Op: "flush"}
		default:
			var q []float32
			if kind == Cosine {
				q = g.drawNonZero(rt, "q")
			} else {
				q = g.draw(rt, "q")
			}
			op := vfHOp{Op: "search", Vec: q, K: rapid.IntRange(1, nLive+2).Draw(rt, "k")}
			if c.Regime == "A" {
				op.K = rapid.IntRange(-2, nLive+2).Draw(rt, "k_any")
				if rapid.IntRange(0, 3).Draw(rt, "thr_on") == 0 {
					op.Thr = float32(rapid.Float64Range(0, 6).Draw(rt, "thr"))
				}
				op.IDs = vfGenIDSubset(rt, all)
				switch rapid.IntRange(0, 5).Draw(rt, "ef_override") {
				case 0:
					op.Ef = rapid.IntRange(2*c.M, 8*c.M).Draw(rt, "ef_search")
				case 1:
					op.Ef = -rapid.IntRange(2*c.M, 8*c.M).Draw(rt, "ef_set")
				}
				if rapid.IntRange(0, 3).Draw(rt, "thr_of") == 0 {
					op.ThrOf = rapid.IntRange(1, nLive+1).Draw(rt, "thr_of_rank")
				}
			}
			return op
		}
	})
	if c.Regime == "A" && rapid.IntRange(0, 5).Draw(rt, "scripted") == 0 {
		// scripted "wipe and reload" histories: fill, remove everything (or all but one), flush,
		// reload about as many fresh vectors, flush again, search - rounds repeated
		genVec := func() []float32 {
			v := g.draw(rt, "sv")
			if kind == Cosine && vfIsZero(v) {
				v[0] = 1
			}
			return v
		}
		n1 := rapid.IntRange(1, 2*c.M).Draw(rt, "fill")
		for r := 0; r < rapid.IntRange(1, 3).Draw(rt, "rounds"); r++ {
			for j := 0; j < n1; j++ {
				c.Ops = append(c.Ops, vfHOp{Op: "add", ID: vfGenFreshID(rt, used), Vec: genVec()})
			}
			c.Ops = append(c.Ops, vfHOp{Op: "search", Vec: genVec(), K: n1})
			c.Ops = append(c.Ops, vfHOp{Op: "remove", Target: rapid.SampledFrom([]string{"all", "all", "all_but_one"}).Draw(rt, "wipe")})
			if rapid.IntRange(0, 3).Draw(rt, "flush_after_wipe") > 0 {
				c.Ops = append(c.Ops, vfHOp{Op: "flush"})
			}
			n2 := n1 + rapid.SampledFrom([]int{0, 0, 0, -1, 1}).Draw(rt, "reload_delta")
			if n2 < 1 {
				n2 = 1
			}
			if n2 > 2*c.M-1 {
				n2 = 2*c.M - 1
			}
			for j := 0; j < n2; j++ {
				c.Ops = append(c.Ops, vfHOp{Op: "add", ID: vfGenFreshID(rt, used), Vec: genVec()})
			}
			c.Ops = append(c.Ops, vfHOp{Op: "flush"}, vfHOp{Op: "search", Vec: genVec(), K: n2 + 1})
			c.Ops = append(c.Ops, vfHOp{Op: "remove", Target: "all"}, vfHOp{Op: "flush"})
			n1 = n2
		}
		return c
	}
	c.Ops = vfListOf(rt, "ops", opGen, minOps, maxOps)
	return c
}

// vfReach returns the set of resident vertices reachable from `from` over layer-0 out-edges.
func vfReach(s *vfHNSWSnap, from uint32) map[uint32]bool {
	seen := map[uint32]bool{}
	if _, ok := s.Adj0[from]; !ok {
		return seen
	}
	seen[from] = true
	queue := []uint32{from}
	for len(queue) > 0 {
		cur := queue[0]
		queue = queue[1:]
		for _, nb := range s.Adj0[cur] {
			if _, resident := s.Adj0[nb]; resident && !seen[nb] {
				seen[nb] = true
				queue = append(queue, nb)
			}
		}
	}
	return seen
}

func vfUnreachableLive(s *vfHNSWSnap) map[uint32]bool {
	out := map[uint32]bool{}
	seen := vfReach(s, s.Entry)
	for id := range s.Adj0 {
		if !s.Deleted[id] && !seen[id] {
			out[id] = true
		}
	}
	return out
}

// vfLegitPrune: the only way an Add may change (or refuse to change) the layer-0 list of a
// pre-existing vertex x is  new(x) = the `cap` nearest (to x) of old(x) ∪ {y}.
func vfLegitPrune(idx *HNSWIndex, before, after *vfHNSWSnap, y uint32) (bool, string) {
	cap0 := 2 * after.M
	check := map[uint32]bool{}
	for id, old := range before.Adj0 {
		if fmt.Sprint(old) != fmt.Sprint(after.Adj0[id]) {
			check[id] = true
		}
	}
	for _, x := range after.Adj0[y] {
		if _, pre := before.Adj0[x]; pre {
			check[x] = true
		}
	}
	for id := range check {
		old, nw := before.Adj0[id], after.Adj0[id]
		union := map[uint32]bool{}
		linked := false
		for _, x := range after.Adj0[y] {
			if x == id {
				linked = true
			}
		}
		if linked {
			union[y] = true
		}
		for _, x := range old {
			union[x] = true
		}
		want := len(union)
		if want > cap0 {
			want = cap0
		}
		kept := map[uint32]bool{}
		for _, x := range nw {
			if !union[x] {
				return false, fmt.Sprintf("vertex %d gained the foreign neighbour %d", id, x)
			}
			kept[x] = true
		}
		if len(kept) != want {
			return false, fmt.Sprintf("vertex %d has %d layer-0 neighbours after the insertion of %d, want %d (had %d, cap %d)", id, len(kept), y, want, len(old), cap0)
		}
		var maxKept, minDropped float32 = -1, -1
		var keptID, droppedID uint32
		for x := range union {
			d := vfHNSWStoredDist(idx, id, x)
			if kept[x] {
				if d > maxKept {
					maxKept, keptID = d, x
				}
			} else if minDropped < 0 || d < minDropped {
				minDropped, droppedID = d, x
			}
		}
		if minDropped >= 0 && maxKept > minDropped {
			return false, fmt.Sprintf("while inserting %d, vertex %d kept neighbour %d at distance %g but dropped %d at %g", y, id, keptID, maxKept, droppedID, minDropped)
		}
	}
	return true, ""
}

// vfLegitFlush: a Flush may only delete the tombstoned vertices with their incident edges
// and re-elect the entry point if it was tombstoned.
func vfLegitFlush(before, after *vfHNSWSnap) (bool, string) {
	for id := range before.Adj0 {
		_, still := after.Adj0[id]
		if before.Deleted[id] == still {
			return false, fmt.Sprintf("vertex %d: tombstoned=%v but resident after flush=%v", id, before.Deleted[id], still)
		}
	}
	for id, nw := range after.Adj0 {
		old, ok := before.Adj0[id]
		if !ok {
			return false, fmt.Sprintf("vertex %d appeared during flush", id)
		}
		var want []uint32
		for _, x := range old {
			if !before.Deleted[x] {
				want = append(want, x)
			}
		}
		if fmt.Sprint(want) != fmt.Sprint(nw) && !(len(want) == 0 && len(nw) == 0) {
			return false, fmt.Sprintf("vertex %d: edges %v became %v, expected %v", id, old, nw, want)
		}
	}
	if len(after.Adj0) > 0 {
		if !before.Deleted[before.Entry] && after.Entry != before.Entry {
			return false, fmt.Sprintf("entry point moved from live vertex %d to %d", before.Entry, after.Entry)
		}
		if _, ok := after.Adj0[after.Entry]; !ok {
			return false, fmt.Sprintf("entry point %d is not a resident vertex after flush", after.Entry)
		}
	}
	return true, ""
}

const vfKF2 = "KF-2"

func vfC12Run(c vfC12Case, ctx *vfCtx) *vfViolation {
	ctx.HistoryLen("history", len(c.Ops))
	kind := DistanceKind(c.Metric)
	idx, err := NewHNSWIndex(c.Dim, kind, c.M, c.EfC, c.EfS)
	if err != nil {
		return vfFail("NewHNSWIndex: %v", err)
	}
	ctx.Class("regime=" + c.Regime)
	m := vfNewVecModel(kind)
	resident := 0 // resident vertices since the index was last empty / flushed
	maxResident := 0
	pruned := false
	removedEntryBeforeSearch := false
	liveSorted := func() []uint32 {
		ids := make([]uint32, 0, len(m.live))
		for id := range m.live {
			ids = append(ids, id)
		}
		sort.Slice(ids, func(i, j int) bool { return ids[i] < ids[j] })
		return ids
	}
	var insertion []uint32
	remove := func(i int, id uint32) *vfViolation {
		if err := idx.Remove(*NewVectorNodeWithID(id, nil)); err != nil {
			return vfFail("op %d: Remove(%d) of a live vector failed: %v", i, id, err)
		}
		delete(m.live, id)
		m.resident[id] = true
		return nil
	}
	var kfOrphans int64

	for i, op := range c.Ops {
		switch op.Op {
		case "add":
			if len(op.Vec) != c.Dim || kind == Cosine && vfIsZero(op.Vec) || op.ID == 0 {
				continue
			}
			if _, dup := m.live[op.ID]; dup || m.resident[op.ID] {
				continue
			}
			if c.Regime == "A" && resident >= 2*c.M {
				continue // would leave the exact regime
			}
			var before vfHNSWSnap
			var ub map[uint32]bool
			if c.Regime == "B" {
				before = vfHNSWSnapOf(idx)
				ub = vfUnreachableLive(&before)
			}
			if err := idx.Add(*NewVectorNodeWithID(op.ID, vfCloneF32(op.Vec))); err != nil {
				return vfFail("op %d: Add(%d): %v", i, op.ID, err)
			}
			m.live[op.ID] = op.Vec
			insertion = append(insertion, op.ID)
			resident++
			if resident > maxResident {
				maxResident = resident
			}
			if resident > 2*c.M+1 {
				pruned = true
			}
			if c.Regime == "B" {
				after := vfHNSWSnapOf(idx)
				ua := vfUnreachableLive(&after)
				var newly []uint32
				for x := range ua {
					if !ub[x] {
						newly = append(newly, x)
					}
				}
				if len(newly) > 0 {
					sort.Slice(newly, func(a, b int) bool { return newly[a] < newly[b] })
					// KF-2 is about neighbours that drop a vertex again when their lists overflow. A new vertex
					// that was wired to NOBODY although the graph had vertices is something else.
					if len(after.Adj0[op.ID]) == 0 && len(before.Adj0) > 0 {
						return vfFail("op %d: vertex %d was inserted without a single layer-0 edge although %d vertices were resident (%d of them live): it cannot be reached from the entry point %d", i, op.ID, len(before.Adj0), len(m.live)-1, after.Entry)
					}
					if ok, why := vfLegitPrune(idx, &before, &after, op.ID); !ok {
						return vfFail("op %d: inserting %d made live vertices %v unreachable from the entry point %d, and not by nearest-neighbour pruning: %s", i, op.ID, newly, after.Entry, why)
					}
					if !ctx.AttrActive(vfKF2) {
						return vfFailAttr(vfKF2, "op %d: inserting %d made live vertices %v unreachable from the entry point %d through layer 0 (nearest-M pruning dropped their last in-edge)", i, op.ID, newly, after.Entry)
					}
					kfOrphans += int64(len(newly))
				}
			}
		case "remove":
			ids := liveSorted()
			if len(ids) == 0 {
				continue
			}
			snap := vfHNSWSnapOf(idx)
			pick := func() uint32 {
				switch op.Target {
				case "entry":
					if _, ok := m.live[snap.Entry]; ok {
						return snap.Entry
					}
				case "first":
					for _, id := range insertion {
						if _, ok := m.live[id]; ok {
							return id
						}
					}
				case "maxlevel":
					best, bl := ids[0], -1
					for _, id := range ids {
						if snap.Level[id] > bl {
							best, bl = id, snap.Level[id]
						}
					}
					return best
				case "hub":
					indeg := map[uint32]int{}
					for _, l := range snap.Adj0 {
						for _, x := range l {
							indeg[x]++
						}
					}
					best, bd := ids[0], -1
					for _, id := range ids {
						if indeg[id] > bd {
							best, bd = id, indeg[id]
						}
					}
					return best
				case "id":
					if _, ok := m.live[op.ID]; ok {
						return op.ID
					}
				}
				return ids[op.Nth%len(ids)]
			}
			switch op.Target {
			case "all", "all_but_one":
				keep := uint32(0)
				if op.Target == "all_but_one" {
					keep = ids[op.Nth%len(ids)]
				}
				for _, id := range ids {
					if id != keep || op.Target == "all" {
						if id == snap.Entry {
							removedEntryBeforeSearch = true
						}
						if v := remove(i, id); v != nil {
							return v
						}
					}
				}
				ctx.Class("remove_" + op.Target)
			default:
				id := pick()
				if id == snap.Entry {
					removedEntryBeforeSearch = true
					ctx.Class("remove_entry_point")
				}
				if v := remove(i, id); v != nil {
					return v
				}
			}
			// removing twice / unknown ids fails
			if err := idx.Remove(*NewVectorNodeWithID(4000000000, nil)); err == nil {
				return vfFail("op %d: Remove of an unknown id succeeded", i)
			}
		case "flush":
			var before vfHNSWSnap
			var ub map[uint32]bool
			if c.Regime == "B" {
				before = vfHNSWSnapOf(idx)
				ub = vfUnreachableLive(&before)
			}
			if err := idx.Flush(); err != nil {
				return vfFail("op %d: Flush: %v", i, err)
			}
			m.resident = map[uint32]bool{}
			resident = len(m.live)
			if c.Regime == "B" {
				after := vfHNSWSnapOf(idx)
				ua := vfUnreachableLive(&after)
				var newly []uint32
				for x := range ua {
					if !ub[x] {
						newly = append(newly, x)
					}
				}
				for id := range m.live {
					if _, ok := after.Adj0[id]; !ok {
						return vfFail("op %d: live vector %d is no longer a vertex of the bottom-layer graph after Flush", i, id)
					}
				}
				if len(newly) > 0 {
					sort.Slice(newly, func(a, b int) bool { return newly[a] < newly[b] })
					// KF-2 covers exactly one way of orphaning at Flush: deleting the tombstoned vertices with
					// their edges and nothing else. A Flush that orphans live vertices in another way is not it.
					// (A Flush that does MORE - e.g. reconnects the neighbours of deleted vertices - and orphans
					// nothing is fine: the property does not say what Flush does to the graph.)
					if ok, why := vfLegitFlush(&before, &after); !ok {
						return vfFail("op %d: Flush made live vertices %v unreachable from the entry point %d, and not merely by deleting the tombstoned vertices and their edges: %s", i, newly, after.Entry, why)
					}
					if !ctx.AttrActive(vfKF2) {
						return vfFailAttr(vfKF2, "op %d: Flush made live vertices %v unreachable from the entry point %d (edges through deleted vertices are not repaired)", i, newly, after.Entry)
					}
					kfOrphans += int64(len(newly))
				}
			}
		case "search":
			if len(op.Vec) != c.Dim || kind == Cosine && vfIsZero(op.Vec) {
				continue
			}
			if c.Regime == "A" && op.Ef < 0 && -op.Ef >= 2*c.M {
				idx.SetEfSearch(-op.Ef)
				ctx.Class("SetEfSearch")
			}
			mk := func(k int, thr float32) VectorSearch {
				s := idx.NewSearch().WithQuery(vfCloneF32(op.Vec)).WithK(k).WithThreshold(thr)
				if len(op.IDs) > 0 {
					s = s.WithDocumentIDs(op.IDs...)
				}
				if c.Regime == "A" && op.Ef >= 2*c.M {
					s = s.WithEfSearch(op.Ef)
					ctx.Class("WithEfSearch")
				}
				return s
			}
			res, err := mk(op.K, op.Thr).Execute()
			if err != nil {
				return vfFail("op %d: search: %v", i, err)
			}
			hits := vfHitsOf(res)
			if c.Regime == "A" && op.ThrOf > 0 {
				// tolerance-free: a threshold equal to a reported score keeps exactly the hits up to it
				allRes, err := mk(op.K, 0).Execute() // the same k: a beam width that follows k is then the same on both sides
				if err != nil {
					return vfFail("op %d: search: %v", i, err)
				}
				all := vfHitsOf(allRes)
				if op.ThrOf <= len(all) && all[op.ThrOf-1].Score > 0 {
					thr := all[op.ThrOf-1].Score
					got, err := mk(op.K, thr).Execute()
					if err != nil {
						return vfFail("op %d: search: %v", i, err)
					}
					if v := vfThresholdRelation(all, vfHitsOf(got), thr, op.K); v != nil {
						v.Msg = fmt.Sprintf("op %d: exact regime (M=%d, %d resident): %s", i, c.M, resident, v.Msg)
						return v
					}
					ctx.Class("threshold_at_a_reported_score")
				}
			}
			if c.Regime == "A" {
				cands := m.candidates(op.Vec, op.Thr, op.IDs)
				if v := vfCompareTopK(hits, cands, op.K, true); v != nil {
					v.Msg = fmt.Sprintf("op %d: exact regime (M=%d, %d resident <= 2M, efC=%d efS=%d), search(k=%d): %s", i, c.M, resident, c.EfC, c.EfS, op.K, v.Msg)
					return v
				}
				if removedEntryBeforeSearch && len(m.live) > 0 {
					ctx.NonTrivial()
				}
				ctx.Class("search_exact_regime")
				continue
			}
			// regime B: validity of every hit
			cands := m.candidates(op.Vec, 0, nil)
			byID := map[uint32]vfCand{}
			for _, cd := range cands {
				byID[cd.ID] = cd
			}
			seen := map[uint32]bool{}
			for r, h := range hits {
				cd, ok := byID[h.ID]
				if !ok {
					return vfFail("op %d: search returned id %d which is not live", i, h.ID)
				}
				if seen[h.ID] {
					return vfFail("op %d: id %d returned twice", i, h.ID)
				}
				seen[h.ID] = true
				if d := float64(h.Score) - cd.Want; d > cd.Tol || -d > cd.Tol {
					return vfFail("op %d: id %d score %v, true distance %v", i, h.ID, h.Score, cd.Want)
				}
				if r > 0 && hits[r-1].Score > h.Score {
					return vfFail("op %d: results out of order at rank %d", i, r)
				}
			}
			if len(hits) > op.K && op.K > 0 {
				return vfFail("op %d: %d results for k=%d", i, len(hits), op.K)
			}
			if len(m.live) > 0 && len(hits) == 0 {
				// attribution: is there a resident vertex from which no live vertex can be reached?
				snap := vfHNSWSnapOf(idx)
				closed := false
				for u := range snap.Adj0 {
					// the layer-0 search starts where the greedy descent through the upper layers ends:
					// at the entry point or at a vertex that lives on an upper layer
					if u != snap.Entry && snap.Level[u] < 1 {
						continue
					}
					anyLive := false
					for x := range vfReach(&snap, u) {
						if !snap.Deleted[x] {
							anyLive = true
							break
						}
					}
					if !anyLive {
						closed = true
						break
					}
				}
				if !closed {
					return vfFail("op %d: unrestricted search(k=%d) returned nothing although %d live vectors exist and a live vertex is reachable (layer 0) from every vertex at which the layer-0 search can start (entry point and upper-layer vertices); entry point %d tombstoned=%v", i, op.K, len(m.live), snap.Entry, snap.Deleted[snap.Entry])
				}
				if !ctx.AttrActive(vfKF2) {
					return vfFailAttr(vfKF2, "op %d: search returned nothing although %d live vectors exist: the layer-0 graph has a region without any live vertex that cannot be left (orphaning by pruning)", i, len(m.live))
				}
				kfOrphans++
			}
			ctx.Class("search_large_regime")
		}
	}
	if c.Regime == "B" && pruned {
		ctx.NonTrivial()
	}
	ctx.ClassIf(pruned, "history_with_pruning")
	ctx.Count("kf2_attributed_orphan_events", kfOrphans)
	if kfOrphans > 0 {
		ctx.Excluded(1)
	}
	ctx.Count("max_resident", int64(maxResident))
	return nil
}

func TestVerif_C12(t *testing.T) { vfCheck(t, "C12", vfC12Gen, vfC12Run) }
